// Package c18 is the driver of property C18 (filesystem authentication cannot
// be steered outside its directory).
package c18

import (
	"encoding/json"
	"fmt"
	"os"
	"path/filepath"
	"sync"
	"time"

	"cedarverif/internal/core"
	"cedarverif/internal/fsreplay"
	"cedarverif/internal/kit"
	"cedarverif/internal/tlc"
)

func init() { core.Register("C18", run) }

// generous: TLC shares the machine with other checks
const tlcTimeout = 45 * time.Minute

func run(c *core.Ctx) {
	c.Assume("the client side is reachable only in local mode through the public API (performAuthentication never passes remote=true); FS_REMOTE_ names on a local exchange are 'either' in FSAuth.tla")
	c.Assume("filesystem effects are observed by snapshots (before / when the result code is on the wire / after return) of /tmp, /, /var and the sandbox tree; a directory created and removed between two snapshots is not seen")
	c.Assume("the harness runs with enough privilege to create directories in /tmp; 'directory owned by another uid' needs root")
	if c.Replay != "" {
		if a, err := filepath.Abs(c.Replay); err == nil {
			c.Replay = a // the fixture changes the working directory
		}
	}
	mc, gen := "MC_C18_quick.cfg", "Gen_C18_quick.cfg"
	if c.Thorough() {
		mc, gen = "MC_C18.cfg", "Gen_C18_thorough.cfg"
	}
	// model checking and behaviour generation are independent: run them side by side
	var wg sync.WaitGroup
	if c.Replay == "" {
		wg.Add(1)
		go func() {
			defer wg.Done()
			kit.ModelCheck(c, "FSAuth.tla", mc, tlc.Options{Workers: 12, Timeout: tlcTimeout})
		}()
	}
	if c.Replay != "" {
		gen = "Gen_C18_quick.cfg"
	}
	raws := kit.Generate(c, "Gen_FSAuth.tla", gen, tlc.Options{Timeout: tlcTimeout})
	wg.Wait()
	if c.IsBroken() {
		return
	}
	var scs []fsreplay.Scn
	for _, r := range raws {
		var w struct {
			Scn fsreplay.Scn `json:"scn"`
		}
		if err := json.Unmarshal(r, &w); err != nil {
			c.Broken("bad scenario JSON: %v", err)
			return
		}
		scs = append(scs, w.Scn)
	}
	tab := fsreplay.BuildTable(scs)

	env, err := fsreplay.NewEnv(c.Tmp)
	if err != nil {
		c.Broken("C18 fixture: %v", err)
		return
	}
	defer env.Close()
	if c.Replay != "" {
		fsreplay.ReplayFile(c, env, tab)
		return
	}

	rng := c.Rand("c18")
	var jobs []fsreplay.Job
	nScn, nSkippedTwin, nNotSampled := 0, 0, 0
	for i, s := range scs {
		if i < 3 {
			c.Sample(s)
		}
		nScn++
		if s.Role == "server" {
			n := 1
			if s.Obj == "dir755" {
				n = 6
			}
			for v := 0; v < n; v++ {
				jobs = append(jobs, fsreplay.Job{C: fsreplay.Concrete{Scn: s, ObjVar: v}})
			}
			continue
		}
		nv := fsreplay.NVariants(s)
		n := len(s.Path)
		addrLast := n > 0 && isAddrLeaf(s.Path[n-1])
		spellLast := n > 0 && isSpelling(s.Path[n-1])
		switch {
		case spellLast && s.Exp == "reject" && !(n == 2 && s.Path[0] == "B" && s.Abs) && !c.Thorough():
			// quick: every spelling of the peer address is replayed under the base directory;
			// under any other parent (refused whatever the leaf) two seeded members suffice
			off := rng.Intn(nv)
			for v := 0; v < 2 && v < nv; v++ {
				jobs = append(jobs, fsreplay.Job{C: fsreplay.Concrete{Scn: s, Variant: off + v*3}})
			}
		case n <= 2 || s.Exp != "reject":
			// every concretisation of every class
			for v := 0; v < nv; v++ {
				jobs = append(jobs, fsreplay.Job{C: fsreplay.Concrete{Scn: s, Variant: v}})
			}
		case s.Fam == 6 && !addrLast && !c.Thorough():
			// the family matters only for a final address-qualified leaf (quick tier: the
			// IPv4 twin of this behaviour is replayed)
			nSkippedTwin++
		case n == 3 && c.Thorough():
			off := rng.Intn(nv)
			for v := 0; v < 2 && v < nv; v++ {
				jobs = append(jobs, fsreplay.Job{C: fsreplay.Concrete{Scn: s, Variant: off + v*7}})
			}
		case n >= 4:
			// thorough only: a seeded quarter of the length-4 sequences (all of them are model-checked)
			if rng.Intn(4) == 0 {
				jobs = append(jobs, fsreplay.Job{C: fsreplay.Concrete{Scn: s, Variant: rng.Intn(nv * 3)}})
			} else {
				nNotSampled++
			}
		default:
			jobs = append(jobs, fsreplay.Job{C: fsreplay.Concrete{Scn: s, Variant: rng.Intn(nv * 3)}})
		}
	}
	// the server's own path, unmodified: the positive end-to-end exchange and its faults
	for _, fam := range []int{4, 6} {
		leaf := "La4"
		if fam == 6 {
			leaf = "La6"
		}
		for _, fault := range []string{"none", "sendFail", "verdictLost"} {
			for k := 0; k < 3; k++ {
				jobs = append(jobs, fsreplay.Job{C: fsreplay.Concrete{Own: true, Variant: k, Scn: fsreplay.Scn{Role: "client", Abs: true,
					Path: []string{"B", leaf}, Fam: fam, Fault: fault, Remover: "server", Verdict: "any", Valid: true, Exp: "create"}}})
			}
		}
		// ... and with a server that leaves the removal to the client (both verdicts)
		for _, verdict := range []string{"accept", "refuse"} {
			for k := 0; k < 2; k++ {
				jobs = append(jobs, fsreplay.Job{C: fsreplay.Concrete{Own: true, Variant: k, Scn: fsreplay.Scn{Role: "client", Abs: true,
					Path: []string{"B", leaf}, Fam: fam, Fault: "none", Remover: "nobody", Verdict: verdict, Valid: true, Exp: "create"}}})
			}
		}
	}
	// every accepted path and every eighth refused one is observed by complete directory
	// listings, the others by probing for the components of the sent path
	for i := range jobs {
		if jobs[i].C.Scn.Exp != "reject" || i%8 == 0 {
			jobs[i].C.FullScan = true
		}
	}
	nModel := len(jobs)
	mj := env.MutationJobs(scs, c.Thorough(), rng)
	jobs = append(jobs, mj...)
	rng.Shuffle(len(jobs), func(i, j int) { jobs[i], jobs[j] = jobs[j], jobs[i] })

	var st fsreplay.Stats
	env.ReplayAll(c, jobs, tab, 16, &st)

	c.Add("traces_validated_against_impl", st.Conform)
	c.Set("model_behaviours", nScn)
	c.Set("cases_from_behaviours", nModel)
	c.Set("behaviours_replayed_by_ipv4_twin_only", nSkippedTwin)
	c.Set("length4_behaviours_not_sampled", nNotSampled)
	c.Set("mutation_cases", st.Mutations)
	c.Set("mutations_still_valid", st.MutStillValid)
	c.Set("mutations_outside_enumerated_space", st.OutOfSpace)
	c.Set("exchanges_directory_created", st.Created)
	c.Set("exchanges_refused", st.Rejected)
	c.Set("server_side_cases", st.ServerCases)
	c.Set("skipped", st.Skipped)
	st.SkipReasons.Range(func(k, _ any) bool { c.Note("skipped: " + k.(string)); return true })
	if st.Created == 0 || st.Rejected == 0 || st.ServerCases == 0 {
		c.Broken("C18 replay is vacuous: created=%d refused=%d server=%d", st.Created, st.Rejected, st.ServerCases)
	}
	if left := leftovers(); len(left) > 0 {
		c.Note(fmt.Sprintf("FS_* entries in /tmp after the run (may belong to other processes): %d", len(left)))
	}
	c.Set("exhaustive", true)
	c.Set("rule", "behaviours = every (absolute|relative) x component-class sequence of length <= MaxLen x connection family x network fault, and every (object kind x client result) on the server side, enumerated by TLC from Gen_FSAuth with the expected verdict; each is one REAL client handshake (methods [FS]) against a REAL server handshake over TCP loopback with a frame-aware relay on the client's connection; classes expand to concrete strings (all variants for paths of <= 2 components and for every accepted path, a seeded variant otherwise; quick: IPv6 twins of refused 3-component paths without a final address leaf are not replayed; thorough: two variants of every 3-component path and a seeded quarter of the 4-component paths); plus every single-character substitution / deletion / insertion / duplication (quick: seeded sample per position) of every accepted path, classified back into the model's classes for the expected verdict; non-trivial = path of >= 2 components or a server-side case")
}

func isSpelling(c string) bool {
	switch c {
	case "LaMap", "LaAlt", "LaZone", "LaOdd":
		return true
	}
	return false
}

func isAddrLeaf(c string) bool {
	switch c {
	case "La4", "La6", "La4port", "La4ip", "Lhost", "LaMap", "LaAlt", "LaZone", "LaOdd":
		return true
	}
	return false
}

func leftovers() []string {
	f, err := os.Open(fsreplay.BaseDir)
	if err != nil {
		return nil
	}
	defer f.Close()
	names, _ := f.Readdirnames(-1)
	var out []string
	for _, n := range names {
		if len(n) > 3 && n[:3] == "FS_" {
			out = append(out, n)
		}
	}
	return out
}
