package props

import (
	"crypto/sha256"
	"encoding/json"

	"cedarverif/internal/chanreplay"
	"cedarverif/internal/core"
	"cedarverif/internal/tlc"
)

func init() {
	core.Register("C12", runC12)
	core.Register("C15", runC15)
}

func dedupe(raws []json.RawMessage) []json.RawMessage {
	seen := map[[32]byte]bool{}
	var out []json.RawMessage
	for _, r := range raws {
		h := sha256.Sum256(r)
		if !seen[h] {
			seen[h] = true
			out = append(out, r)
		}
	}
	return out
}

func runC12(c *core.Ctx) {
	c.Assume("AES-GCM, SHA-256 of the Go standard library are correct; the reference frame codec (harness/internal/refcodec) is an independent reading of the documented format")
	c.Assume("model counters are mapped onto the real 32-bit range: a direction that starts at model counter s>0 starts at 2^32-1-(MaxCtr-s) through a reference-built crypto-state blob")
	if replayFile(c) {
		return
	}
	mc := "MC_C12_quick.cfg"
	if c.Thorough() {
		mc = "MC_C12.cfg"
	}
	if modelCheck(c, "SecureChannel.tla", mc, tlc.Options{Workers: 16, Timeout: 20 * 60e9}) == nil {
		return
	}
	raws := generate(c, "Gen_SecureChannel.tla", "Gen_C12_quick.cfg", tlc.Options{})
	n := "num=150"
	if c.Thorough() {
		n = "num=3000"
	}
	raws = append(raws, generate(c, "Gen_SecureChannel.tla", "Gen_C12_free.cfg", tlc.Options{Simulate: n, Depth: 30, Seed: c.Seed})...)
	raws = dedupe(raws)
	scs := parseChan(c, raws)
	if c.IsBroken() {
		return
	}
	c.Set("behaviours_distinct", len(scs))
	var jobs []chanJob
	plans := []int{0, 1}
	apis := []int{0, 2}
	if c.Thorough() {
		plans = []int{0, 1, 2, 3}
		apis = []int{0, 1, 2, 3}
	}
	for i, sc := range scs {
		if i < 2 {
			c.Sample(sc)
		}
		for _, sp := range plans {
			for _, api := range apis {
				for _, ref := range []bool{false, true} {
					if ref && sc.HasStep("Handoff") != nil {
						continue // hand-off expectations depend on the real sender's buffers
					}
					jobs = append(jobs, chanJob{sc, chanreplay.Variant{RecvAPI: api, SizePlan: sp, RefSend: ref, Salt: int(c.Seed%1000) + i}})
				}
			}
		}
	}
	var st chanreplay.Stats
	replayChannel(c, jobs, &st)
	c.Set("frames_opened_by_reference_decryptor", st.FramesOpenedByRef)
	c.Set("reference_built_messages_accepted_by_real_receiver", st.RefFramesAccepted)
	c.Set("real_api_calls", st.RealCalls)
	if st.FramesOpenedByRef == 0 || st.RefFramesAccepted == 0 {
		c.Broken("vacuous run: no frame was opened by the reference decryptor / accepted from the reference sealer")
	}
	c.Set("rule", "behaviours = scripted histories (Gen_SecureChannel mode script: every combination of stream state, cleartext prefix 0..2 per direction, start counters {0, limit-2} per direction, 3 scripts) plus seeded TLC simulation of the free interleaving; each replayed with the real sender (every emitted frame opened by the reference decryptor with the IV/counter/AAD predicted by the model) and with the reference sealer feeding the real receiver; distinct = hash of behaviour+variant")
}

func runC15(c *core.Ctx) {
	c.Assume("the exported blob travels intact unless the behaviour says otherwise; the imported stream is wrapped around the same in-memory wire (unread bytes stay with the connection, as with a passed fd)")
	c.Assume("a hand-off while frames of an outbound message have left but nothing is buffered is allowed either outcome (the statement does not decide it)")
	if replayFile(c) {
		return
	}
	mc, gen := "MC_C15_quick.cfg", "Gen_C15_quick.cfg"
	if c.Thorough() {
		mc, gen = "MC_C15.cfg", "Gen_C15_thorough.cfg"
	}
	if modelCheck(c, "SecureChannel.tla", mc, tlc.Options{Workers: 16}) == nil {
		return
	}
	scs := parseChan(c, dedupe(generate(c, "Gen_SecureChannel.tla", gen, tlc.Options{})))
	if c.IsBroken() {
		return
	}
	rng := c.Rand("c15")
	var jobs []chanJob
	plans := []int{0, 1}
	if c.Thorough() {
		plans = []int{0, 1, 2}
	}
	nHand, nRefused, nBad := 0, 0, 0
	for i, sc := range scs {
		if i < 2 {
			c.Sample(sc)
		}
		for _, st := range sc.Trace {
			if st.A == "Handoff" {
				nHand++
				if st.Exp == "refused" {
					nRefused++
				}
			}
		}
		bad := sc.HasStep("HandoffBad")
		for _, sp := range plans {
			base := chanreplay.Variant{RecvAPI: i % 4, SizePlan: sp, Salt: int(c.Seed%1000) + i}
			if bad == nil {
				jobs = append(jobs, chanJob{sc, base})
				continue
			}
			nBad++
			n := advSpace(sc, base)
			if n == 0 {
				continue
			}
			k := 4
			if c.Thorough() {
				k = 40
			}
			if bad.Fault == "trunc" && (c.Thorough() || sp == 0 && i%8 == 0) {
				// every strict prefix of the blob
				for b := 0; b < n; b++ {
					v := base
					v.Bit = b
					jobs = append(jobs, chanJob{sc, v})
				}
				continue
			}
			for t := 0; t < k; t++ {
				v := base
				v.Bit = rng.Intn(n)
				jobs = append(jobs, chanJob{sc, v})
			}
		}
	}
	var st chanreplay.Stats
	replayChannel(c, jobs, &st)
	c.Set("handoff_attempts_in_behaviours", nHand)
	c.Set("handoff_refusals_expected", nRefused)
	c.Set("damaged_blob_behaviours", nBad)
	c.Set("real_api_calls", st.RealCalls)
	c.Set("exhaustive", true)
	if nHand == 0 || nRefused == 0 {
		c.Broken("vacuous run: no hand-off / no refused hand-off in the generated behaviours")
	}
	c.Set("rule", "behaviours = 3 traffic scripts (single/multi-frame, buffered and direct senders, both receive APIs, frames queued unread) with export+import attempted by either endpoint at EVERY position (chains of 2 in thorough), plus damaged blobs (every strict prefix; corrupted magic / version bytes), enumerated by TLC from Gen_SecureChannel (mode script); every behaviour replayed on two real keyed streams; the model predicts refusal vs success of every export and the continued exchange")
}
