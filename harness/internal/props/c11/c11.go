// Package c11 is the driver of property C11 (token authentication proves
// possession of a valid token, in both directions).
package c11

import (
	"encoding/json"
	"fmt"
	"io"
	"log/slog"
	"os"
	"sort"
	"strings"
	"sync"
	"sync/atomic"

	"cedarverif/internal/core"
	"cedarverif/internal/kit"
	"cedarverif/internal/tlc"
	"cedarverif/internal/tokreplay"
)

func init() { core.Register("C11", run) }

type replayScenario struct {
	Kind    string            `json:"kind"`
	Scn     *tokreplay.Scn    `json:"scn"`
	Alt     *tokreplay.Scn    `json:"alt,omitempty"`
	Variant tokreplay.Variant `json:"variant"`
	Detail  any               `json:"concrete,omitempty"`
}

func run(c *core.Ctx) {
	c.Level = "fault_enumeration"
	c.Assume("HMAC-SHA1/SHA-256, HKDF of Go's crypto libraries are correct; in the model signatures, derived keys and MACs are symbolic terms (no collisions, no forgery without the key)")
	c.Assume("wall-clock time: tokens are minted relative to time.Now() with margins >= 5 s; instants within 5 s of a boundary (expires now, age = limit) are 'either' in model and oracle")
	c.Assume("the on-path party works on the cleartext handshake (both ends: method list [TOKEN], encryption NEVER, no crypto methods), so no AES-GCM transcript binding masks an endpoint's own verdict")
	c.Assume("statement is silent on: nonce/identity echoes and status words when the proof itself is valid, trailing bytes, iat in the future, nbf, tokens without exp/iat, non-canonical base64 spelling of a verifying signature, surrounding white space: either outcome is accepted there (observed behaviour is recorded in the evidence notes)")

	// cedar logs through slog and prints one diagnostic with fmt.Printf
	slog.SetDefault(slog.New(slog.NewTextHandler(io.Discard, nil)))
	realStdout := os.Stdout
	if null, err := os.OpenFile(os.DevNull, os.O_WRONLY, 0); err == nil {
		os.Stdout = null
		defer func() { os.Stdout = realStdout; null.Close() }()
	}

	rng := c.Rand("c11-keys")
	fx, err := tokreplay.NewFixture(c.Tmp, func(b []byte) { rng.Read(b) })
	if err != nil {
		c.Broken("fixture: %v", err)
		return
	}
	if _, err := fx.Tail(); err != nil {
		c.Broken("honest TOKEN handshake through the relay failed: %v", err)
		return
	}

	if c.Replay != "" {
		replayFile(c, fx)
		return
	}

	// Gen_C11.cfg checks every invariant of MC_C11.cfg on the same state space and
	// prints the behaviours; the thorough tier additionally runs the plain
	// model-checking configuration with several workers.
	if c.Thorough() && kit.ModelCheck(c, "TokenAuth.tla", "MC_C11.cfg", tlc.Options{Workers: 4}) == nil {
		return
	}
	raws := kit.Generate(c, "Gen_TokenAuth.tla", "Gen_C11.cfg", tlc.Options{})
	if c.IsBroken() {
		return
	}
	scs, err := tokreplay.ParseScenarios(raws)
	if err != nil {
		c.Broken("bad scenario JSON: %v", err)
		return
	}
	model := tokreplay.Model{}
	expect := map[string]int{}
	for _, s := range scs {
		model[s.Key()] = s
		expect[s.Mode+" "+s.Expect()]++
	}
	c.Set("scenarios", len(scs))
	c.Set("scenarios_by_expectation", expect)
	for i, s := range scs {
		if i%23 == 0 {
			c.Sample(map[string]any{"scenario": s, "expected": s.Expect()})
		}
	}

	jobs := expand(c, fx, scs)
	c.Set("jobs", len(jobs))
	replayAll(c, fx, model, jobs)
	if c.Thorough() {
		c.Set("exhaustive", true)
	}
	c.Set("rule", "TLC enumerates the whole deviation catalogue of TokenAuth.tla (deviation kind x message x abstract position x route, plus the verification variants) with every choice the endpoints have where the statement is silent; the behaviours are grouped by scenario and the set of their outcomes is what the statement allows (singleton = must-fail / must-succeed with that identity). Every scenario is executed against two REAL cedar endpoints joined by a message-aware relay (or against the real VerifyIDToken); abstract positions expand to concrete character / bit / byte / length / offset positions (all of them in thorough, a seeded sample in quick). evaluations = real handshakes + real VerifyIDToken calls; distinct = hash of (scenario, concrete variant); non-trivial = the scenario contains a deviation (kind != none / v_none)")
}

type job = tokreplay.Job

func sample(c *core.Ctx, label string, n, k int) []int {
	if n <= 0 {
		return nil
	}
	if c.Thorough() || k >= n {
		out := make([]int, n)
		for i := range out {
			out[i] = i
		}
		return out
	}
	rng := c.Rand(label)
	seen := map[int]bool{}
	var out []int
	for len(out) < k {
		x := rng.Intn(n)
		if !seen[x] {
			seen[x] = true
			out = append(out, x)
		}
	}
	sort.Ints(out)
	return out
}

func expand(c *core.Ctx, fx *tokreplay.Fixture, scs []*tokreplay.Scn) []job {
	var jobs []job
	add := func(sc *tokreplay.Scn, v tokreplay.Variant) { jobs = append(jobs, job{Sc: sc, V: v}) }
	th := c.Thorough()
	rng := c.Rand("c11-expand")
	// number spellings / extra claims (Variant.Alt of the time kinds): all in thorough
	spell := []int{0}
	if th {
		spell = []int{0, 1, 2, 3}
	}
	// the honest credential of the wire deviations: k1 (quick), also k2 and POOL (thorough)
	bases := []int{0}
	if th {
		bases = []int{0, 1, 2}
	}
	alts := func(sc *tokreplay.Scn, n, quick int) {
		for _, a := range sample(c, "alt/"+sc.Key(), n, quick) {
			for _, b := range bases {
				add(sc, tokreplay.Variant{Alt: a, Idx: rng.Intn(1 << 16), Bit: rng.Intn(8), Base: b})
			}
		}
	}
	deltas := map[string][]int64{
		"exp_past": {10, 5, 60, 250, 86400 * 400}, "exp_near": {60, 30, 3600}, "exp_now": {0},
		"iat_old": {10, 5, 60, 86400}, "iat_near": {60, 30, 300}, "iat_limit": {0}, "iat_future": {60, 3600},
		"time_both_bad": {10, 5, 3600}, "no_exp": {0}, "no_iat": {0}, "nbf_future": {60, 3600},
	}

	nVerifyBulk := 0
	for _, sc := range scs {
		kind := sc.Kind
		if sc.Mode == "verify" {
			kind = kind[2:]
		}
		// concrete size of the field an abstract position refers to
		fieldLen := 0
		tokenKind := false
		switch kind {
		case "tok_hdr", "hdr":
			fieldLen, tokenKind = fx.SegLen[0], true
			if th {
				fieldLen += 4 // headers naming "POOL" are a few characters longer than the k1 header
			}
		case "tok_pay", "pay":
			fieldLen, tokenKind = fx.SegLen[1], true
		case "tok_sig", "sig":
			fieldLen, tokenKind = fx.SegLen[2], true
		case "mac_wrong":
			fieldLen = fx.MacLen
		case "echo_wrong", "nonce_wrong":
			fieldLen = 256
		}
		switch {
		case sc.Mode == "verify" && tokenKind:
			// every character position of the class x every edit x every base token
			n := tokreplay.PosSpace(sc.Pos, fieldLen)
			type ed struct {
				e string
				b int
			}
			var edits []ed
			for b := 0; b < 8; b++ {
				edits = append(edits, ed{"flip", b})
			}
			for b := 0; b < 10; b++ {
				edits = append(edits, ed{"sub", b * 6})
			}
			edits = append(edits, ed{"del", 0}, ed{"ins", 0}, ed{"ins", 5}, ed{"dot", 0}, ed{"swap", 0})
			for base := 0; base < 4; base++ {
				for i := 0; i < n; i++ {
					for _, e := range edits {
						if !th {
							// quick: seeded sample with the class ends always present
							p := 0.11
							if sc.Pos != "mid" {
								p = 0.6
							}
							if rng.Float64() > p {
								continue
							}
						}
						add(sc, tokreplay.Variant{Idx: i, Bit: e.b, Edit: e.e, Base: base})
						nVerifyBulk++
					}
				}
			}
		case sc.Mode == "verify":
			if d, ok := deltas[kind]; ok {
				for _, x := range d {
					for _, sp := range spell {
						add(sc, tokreplay.Variant{Delta: x, Alt: sp})
					}
				}
			} else if kind == "kid_path" {
				n := len(fx.KidAlts(sc.Pos))
				for a := 0; a < n && (th || a < 2); a++ {
					add(sc, tokreplay.Variant{Alt: a})
				}
			} else {
				n := map[string]int{"none": 4, "pool": 2, "otherkey": 2, "unknownkid": 15, "sig_same": 6, "space": 4}[kind]
				if n == 0 {
					n = 1
				}
				for a := 0; a < n; a++ {
					add(sc, tokreplay.Variant{Alt: a, Base: a, Idx: a / 5})
				}
			}
		case fieldLen > 0:
			n := tokreplay.PosSpace(sc.Pos, fieldLen)
			perPos := 1
			if sc.Pos != "mid" {
				perPos = 2
			}
			for _, i := range sample(c, "pos/"+sc.Key(), n, 3) {
				switch {
				case th && (tokenKind || kind == "mac_wrong"):
					// every bit, for an honest credential under each kind of held key
					for _, base := range bases {
						for b := 0; b < 8; b++ {
							add(sc, tokreplay.Variant{Idx: i, Bit: b, Edit: "flip", Base: base})
						}
						if tokenKind {
							add(sc, tokreplay.Variant{Idx: i, Bit: rng.Intn(63), Edit: "sub", Base: base})
						}
					}
				case th:
					// nonces and their echoes: every bit of all 256 bytes
					for b := 0; b < 8; b++ {
						add(sc, tokreplay.Variant{Idx: i, Bit: b, Edit: "flip"})
					}
				default:
					for k := 0; k < perPos; k++ {
						add(sc, tokreplay.Variant{Idx: i, Bit: rng.Intn(8), Edit: "flip"})
					}
					if tokenKind {
						add(sc, tokreplay.Variant{Idx: i, Bit: rng.Intn(63), Edit: "sub"})
					}
				}
			}
		case kind == "cut":
			n := fx.MsgLen[sc.Msg]
			offs := sample(c, "cut/"+sc.Key(), n, 4)
			if !th {
				offs = append(offs, 0, n-1, n-fx.MacLen)
			}
			for _, o := range offs {
				add(sc, tokreplay.Variant{Idx: o})
			}
		case kind == "mac_trunc":
			for _, l := range sample(c, "len/"+sc.Key(), fx.MacLen-1, 3) {
				add(sc, tokreplay.Variant{Idx: l})
			}
		case kind == "echo_trunc" || kind == "nonce_trunc":
			for _, l := range sample(c, "len/"+sc.Key(), 255, 3) {
				add(sc, tokreplay.Variant{Idx: l})
			}
		case kind == "status_other":
			alts(sc, 7, 2)
		case kind == "trail":
			alts(sc, 4, 4)
		case kind == "claim_m1" || kind == "claim_m3" || kind == "claim_all" || kind == "echo_a" || kind == "tok_pay_sub":
			alts(sc, 6, 3)
		case kind == "server_id":
			alts(sc, 4, 2)
		case kind == "mac_long" || kind == "tok_sig_same":
			alts(sc, 3, 3)
		case kind == "tok_unknownkid":
			alts(sc, 5, 2)
		case kind == "kid_path":
			// every concrete key id of the shape (thorough) / the first two (quick):
			// the ends of the list are the plainest spellings
			n := len(fx.KidAlts(sc.Pos))
			for a := 0; a < n && (th || a < 2); a++ {
				add(sc, tokreplay.Variant{Alt: a, Idx: rng.Intn(1 << 16)})
			}
		default:
			if d, ok := deltas[kind]; ok {
				if !th && len(d) > 2 {
					d = d[:2]
				}
				for _, x := range d {
					for _, sp := range spell {
						add(sc, tokreplay.Variant{Delta: x, Idx: rng.Intn(1 << 16), Alt: sp})
					}
				}
				break
			}
			rep := 1
			if th {
				rep = 3
			}
			for k := 0; k < rep; k++ {
				for _, b := range bases {
					add(sc, tokreplay.Variant{Idx: rng.Intn(1 << 16), Alt: k, Base: b})
				}
			}
		}
	}
	c.Set("verify_token_mutations", nVerifyBulk)
	return jobs
}

type diff struct {
	sig    map[string]string
	detail string
	scn    replayScenario
	broken string
}

// runJob executes one job once and returns nil if it conforms.
func runJob(fx *tokreplay.Fixture, model tokreplay.Model, j job, st *stats) *diff {
	sc := j.Sc
	rs := replayScenario{Kind: "TokenAuth", Scn: sc, Variant: j.V}
	if sc.Mode == "verify" {
		r, eff, conc := tokreplay.RunVerify(fx, model, sc, j.V)
		if r.Skip {
			atomic.AddInt64(&st.skipped, 1)
			return nil
		}
		atomic.AddInt64(&st.verify, 1)
		if eff != sc {
			rs.Alt = eff
		}
		rs.Detail = conc
		st.observe("verify "+eff.Kind+" ["+eff.Expect()+"]", r.Got)
		ok, contra := tokreplay.VerifyConforms(eff, r)
		if ok {
			return nil
		}
		if contra {
			return &diff{broken: fmt.Sprintf("reference oracle (%s: %s) contradicts the model's expectation %s for %s on token %q", r.Oracle.Want, r.Oracle.Why, eff.Expect(), eff.Key(), conc.Token)}
		}
		got := r.Got
		if r.Got == "accept" && r.Oracle.Sub != "" && r.Subject != r.Oracle.Sub && r.Oracle.Want != "reject" {
			got = "accept-other-subject"
		}
		return &diff{
			sig: withShape(eff, map[string]string{"spec": "TokenAuth", "role": "verify", "dev": eff.Kind, "got": got}),
			detail: fmt.Sprintf("VerifyIDToken on a %s token (%s; reference: %s, %s): expected %s, real code: %s %s subject=%q; token=%q",
				eff.Kind, posText(sc), r.Oracle.Want, r.Oracle.Why, eff.Expect(), r.Got, r.Err, r.Subject, conc.Token),
			scn: rs}
	}
	o, eff, conc, err := tokreplay.Run(fx, model, sc, j.V)
	if err != nil {
		return &diff{broken: fmt.Sprintf("%s: %v", sc.Key(), err)}
	}
	atomic.AddInt64(&st.exchanges, 1)
	atomic.AddInt64(&st.refChecked, int64(o.RefChecked))
	if o.Injected {
		atomic.AddInt64(&st.injected, 1)
	}
	if eff != sc {
		rs.Alt = eff
	}
	rs.Detail = conc
	if o.Dead {
		return &diff{broken: fmt.Sprintf("%s %+v: exchange did not terminate (watchdog)", sc.Key(), j.V)}
	}
	st.observe(fmt.Sprintf("%s msg%d %s [%s]", eff.Kind, eff.Msg, eff.Via, eff.Expect()), o.Out().String())
	if tokreplay.Conforms(eff, o) {
		if o.RefBad != "" {
			// outcome allowed, but an honest endpoint's proof is not the MAC the
			// reference derives from the token signature: reference or code deviates
			// from the documented derivation - not decidable from the statement alone
			return &diff{broken: fmt.Sprintf("%s %+v: %s", sc.Key(), j.V, o.RefBad)}
		}
		return nil
	}
	var allowed []string
	for _, a := range eff.Allowed {
		allowed = append(allowed, a.String())
	}
	got := fmt.Sprintf("client=%s,server=%s", o.C, o.S)
	if o.S == "ok" {
		idOK := false
		for _, a := range eff.Allowed {
			if a.S == "ok" && (a.C == "na" || a.C == o.C) {
				idOK = true // outcome pair allowed, so the identity is what differs
			}
		}
		if idOK {
			got += ",identity=not-the-subject"
		}
	}
	return &diff{
		sig: withShape(eff, map[string]string{"spec": "TokenAuth", "role": eff.Role, "dev": eff.Kind, "msg": fmt.Sprint(eff.Msg), "via": eff.Via, "got": got}),
		detail: fmt.Sprintf("deviation %s (message %d, %s, route %s) aimed at the %s: the statement allows { %s }; real endpoints: %s (server user %q); client error: %q; server error: %q; client-finished-by-relay=%v %s",
			eff.Kind, eff.Msg, posText(sc), eff.Via, eff.Role, strings.Join(allowed, " | "), o.Out().String(), o.User, o.CErr, o.SErr, o.Injected, o.Note),
		scn: rs}
}

// withShape adds the abstract key-id shape to the signature of the kid-path deviations.
func withShape(sc *tokreplay.Scn, sig map[string]string) map[string]string {
	if sc.Kind == "kid_path" || sc.Kind == "v_kid_path" {
		sig["kid"] = sc.Pos
	}
	return sig
}

func posText(sc *tokreplay.Scn) string {
	if sc.Kind == "kid_path" || sc.Kind == "v_kid_path" {
		return "key id shape " + sc.Pos
	}
	if sc.Pos == "-" || sc.Pos == "" {
		return "no position"
	}
	return "position class " + sc.Pos
}

type stats struct {
	exchanges, verify, skipped, refChecked, injected int64
	mu                                               sync.Mutex
	seen                                             map[string]map[string]int
}

func (s *stats) observe(class, got string) {
	s.mu.Lock()
	defer s.mu.Unlock()
	if s.seen == nil {
		s.seen = map[string]map[string]int{}
	}
	if s.seen[class] == nil {
		s.seen[class] = map[string]int{}
	}
	s.seen[class][got]++
}

func replayAll(c *core.Ctx, fx *tokreplay.Fixture, model tokreplay.Model, jobs []job) {
	var st stats
	var conform int64
	core.ParallelFor(len(jobs), 16, func(i int) {
		j := jobs[i]
		d := runJob(fx, model, j, &st)
		key, _ := json.Marshal(struct {
			S string
			V tokreplay.Variant
		}{j.Sc.Key(), j.V})
		c.Eval(string(key), j.Sc.Kind != "none" && j.Sc.Kind != "v_none")
		if d == nil {
			atomic.AddInt64(&conform, 1)
			return
		}
		if d.broken != "" {
			c.Broken("%s", d.broken)
			return
		}
		// DESIGN §5 (ii): an immediate second run must show the same difference
		d2 := runJob(fx, model, j, &st)
		if d2 == nil || d2.broken != "" || fmt.Sprint(d2.sig) != fmt.Sprint(d.sig) {
			c.Broken("non-reproducible difference for %s %+v: %s", j.Sc.Key(), j.V, d.detail)
			return
		}
		c.Fail(core.Failure{Signature: d.sig, Detail: d.detail, Scenario: d.scn})
	})
	c.Add("traces_validated_against_impl", conform)
	c.Set("real_handshakes", st.exchanges)
	c.Set("real_verify_calls", st.verify)
	c.Set("noop_edits_skipped", st.skipped)
	c.Set("proofs_recomputed_by_reference", st.refChecked)
	c.Set("client_handshakes_completed_by_relay", st.injected)
	// what the real code did where the statement allows either outcome (observation only)
	obs := map[string]map[string]int{}
	for k, v := range st.seen {
		obs[k] = v
	}
	c.Set("observed_outcomes", obs)
}

func replayFile(c *core.Ctx, fx *tokreplay.Fixture) {
	b, err := os.ReadFile(c.Replay)
	if err != nil {
		c.Broken("cannot read replay file: %v", err)
		return
	}
	var rf struct {
		Scenario replayScenario `json:"scenario"`
	}
	if err := json.Unmarshal(b, &rf); err != nil || rf.Scenario.Kind != "TokenAuth" || rf.Scenario.Scn == nil {
		c.Broken("not a TokenAuth replay file: %v", err)
		return
	}
	model := tokreplay.Model{rf.Scenario.Scn.Key(): rf.Scenario.Scn}
	if rf.Scenario.Alt != nil {
		model[rf.Scenario.Alt.Key()] = rf.Scenario.Alt
	}
	replayAll(c, fx, model, []job{{Sc: rf.Scenario.Scn, V: rf.Scenario.Variant}})
}
