// Package c16 is the driver of property C16 (a minted claim id and its import
// yield one shared, working session).
package c16

import (
	"sync"

	"cedarverif/internal/claimreplay"
	"cedarverif/internal/core"
	"cedarverif/internal/kit"
	"cedarverif/internal/tlc"
)

func init() { core.Register("C16", run) }

var subs = []string{"hex", "case", "nonhex", "hash", "rbracket", "lbracket"}

func run(c *core.Ctx) {
	c.Assume("HKDF-SHA256 / AES-GCM of the Go standard library and x/crypto are correct; the key both ends must hold is recomputed independently as HKDF-SHA256(secret, salt \"htcondor\", info \"keygen\")")
	c.Assume("'cannot' for an importer holding a different secret is judged on the working session: no application message is delivered in either direction (whether the resumption exchange itself is answered before any proof of the key is C06's question; such connections are counted as early_accepts)")
	c.Assume("the cache entry records the cipher the session is keyed on (AESGCM) in place of the negotiated list; the list itself is compared on the policy parsed from the claim id")
	if claimreplay.ReplayFile(c) {
		return
	}
	mc, gen := "MC_C16_quick.cfg", "Gen_C16_quick.cfg"
	if c.Thorough() {
		mc, gen = "MC_C16.cfg", "Gen_C16_thorough.cfg"
	}
	var wg sync.WaitGroup
	wg.Add(1)
	go func() {
		defer wg.Done()
		kit.ModelCheck(c, "ClaimSession.tla", mc, tlc.Options{Workers: 8})
	}()
	scs := claimreplay.Parse(c, kit.Generate(c, "Gen_ClaimSession.tla", gen, tlc.Options{}))
	wg.Wait()
	if c.IsBroken() {
		return
	}
	rng := c.Rand("c16")
	var jobs []claimreplay.Job
	nSame, nDiff := 0, 0
	for i, sc := range scs {
		if i < 3 {
			c.Sample(sc)
		}
		if sc.Trace[0].Rel == "same" {
			nSame++
			jobs = append(jobs, claimreplay.Job{Sc: sc})
			continue
		}
		nDiff++
		// "one character of the secret changed": expand the class to concrete
		// positions x substitutes. quick: first, last and two seeded positions, the
		// substitutes rotated over them; thorough: 4 positions x every substitute for
		// every configuration, and every position x every substitute for one in 64.
		if c.Thorough() && nDiff%64 == 1 {
			for p := 0; p < 64; p++ {
				for _, s := range subs {
					jobs = append(jobs, claimreplay.Job{Sc: sc, V: claimreplay.Variant{Pos: p, Sub: s}})
				}
			}
			continue
		}
		pos := []int{0, 63, rng.Intn(64), rng.Intn(64)}
		for k, p := range pos {
			if c.Thorough() {
				for _, s := range subs {
					jobs = append(jobs, claimreplay.Job{Sc: sc, V: claimreplay.Variant{Pos: p, Sub: s}})
				}
			} else {
				jobs = append(jobs, claimreplay.Job{Sc: sc, V: claimreplay.Variant{Pos: p, Sub: subs[(k+i)%len(subs)]}},
					claimreplay.Job{Sc: sc, V: claimreplay.Variant{Pos: p, Sub: subs[(k+i+3)%len(subs)]}})
			}
		}
	}
	var st claimreplay.Stats
	claimreplay.ReplayAll(c, jobs, &st)
	c.Set("configurations_with_the_minted_secret", nSame)
	c.Set("configurations_with_a_corrupted_secret", nDiff)
	c.Set("real_api_calls", st.RealCalls)
	c.Set("real_handshakes", st.Handshakes)
	c.Set("early_accepts_wrong_secret_handler_entered_before_key_proof", st.EarlyAccept)
	c.Set("exhaustive", c.Thorough())
	c.Set("rule", "behaviours = configurations (address shape x encryption x integrity x cipher list x command list x lifetime x version form x direction; all 7560 in thorough, an OA(49,8,7,2) pairwise cover plus every combination of the text-shaping dimensions in quick) x {importer holds the minted secret, importer holds it with one character changed}, enumerated by TLC from Gen_ClaimSession; the corrupted class expands to concrete positions x substitute characters; each job runs the real mint / import / file-transfer import on two caches and two real handshakes naming the session id plus one handshake by command (command map path) for every listed command from either end; distinct = distinct (configuration, relation, position, substitute)")
}
