package props

import "os"

func readFile(p string) ([]byte, error) { return os.ReadFile(p) }
