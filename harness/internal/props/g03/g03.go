// Package g03 is the driver of growth module G03: the watch protocol
// (package watch) against spec/Watch.tla.
package g03

import (
	"encoding/json"
	"sync"
	"time"

	"cedarverif/internal/core"
	"cedarverif/internal/kit"
	"cedarverif/internal/tlc"
	"cedarverif/internal/watchreplay"
)

func init() { core.Register("G03", run) }

type genJob struct {
	cfg string
	out []json.RawMessage
}

func run(c *core.Ctx) {
	c.Assume("the package implements only the record codec; the event stream (server log, catch-up, resume, the client's view and persisted cursor) is modelled from the package documentation and bound to the code through the records and message boundaries: a reader made of GetClassAd + DecodeHeader + Kind.HasAd + GetClassAd")
	c.Assume("empty and nil byte strings are the same value on the wire (both encode to \"\"); a kind outside 0..5 is an unknown future kind, not an error; an attribute of another type than documented reads as absent or is an error")
	c.Assume("AES-GCM of the Go standard library is correct")
	if watchreplay.ReplayFile(c) {
		return
	}
	mcs := []string{"MC_G03_codec.cfg", "MC_G03_stream_quick.cfg"}
	gens := []*genJob{{cfg: "Gen_G03_codec.cfg"}, {cfg: "Gen_G03_stream_quick.cfg"}}
	if c.Thorough() {
		mcs = []string{"MC_G03_codec.cfg", "MC_G03_stream.cfg"}
		gens = []*genJob{{cfg: "Gen_G03_codec.cfg"}, {cfg: "Gen_G03_stream.cfg"}}
	}
	var wg sync.WaitGroup
	for _, cfg := range mcs {
		wg.Add(1)
		go func(cfg string) {
			defer wg.Done()
			kit.ModelCheck(c, "Watch.tla", cfg, tlc.Options{Workers: 12, Timeout: 45 * time.Minute})
		}(cfg)
	}
	for _, g := range gens {
		wg.Add(1)
		go func(g *genJob) {
			defer wg.Done()
			g.out = kit.Dedupe(kit.Generate(c, "Gen_Watch.tla", g.cfg, tlc.Options{Timeout: 45 * time.Minute}))
		}(g)
	}
	wg.Wait()
	if c.IsBroken() {
		return
	}
	salt := int(c.Seed % 100000)
	rng := c.Rand("g03")
	var jobs []watchreplay.Job
	shapes := map[string]bool{}
	for _, g := range gens {
		scs := watchreplay.Parse(c, g.out)
		if c.IsBroken() {
			return
		}
		c.Add("behaviours:"+g.cfg, int64(len(scs)))
		for i, sc := range scs {
			if i == 0 || (i == len(scs)/2 && len(scs) > 2) {
				c.Sample(sc)
			}
			if sc.Mode == "codec" {
				shapes[sc.Rec.What+"/"+sc.Damage] = true
				for _, enc := range []bool{false, true} {
					for lm := 0; lm < 3; lm++ {
						jobs = append(jobs, watchreplay.Job{Sc: sc, V: watchreplay.Variant{Salt: salt, Enc: enc, Split: (i+lm)%2 == 1,
							LenMod: lm, Order: (i + lm + int(c.Seed)) % 3, CutSel: rng.Intn(1 << 16)}})
					}
				}
				continue
			}
			base := watchreplay.Variant{Salt: salt, Enc: (i+int(c.Seed))%2 == 1, Split: (i/2)%2 == 1, LenMod: i % 3, Order: (i / 3) % 3}
			cut := false
			for _, cn := range sc.Conns {
				if n := len(cn.Wire); n > 0 && !cn.Wire[n-1].Whole {
					cut = true
				}
			}
			if !cut {
				jobs = append(jobs, watchreplay.Job{Sc: sc, V: base})
				continue
			}
			for _, sel := range []int{-1, -2, rng.Intn(1 << 16)} {
				v := base
				v.CutSel = sel
				jobs = append(jobs, watchreplay.Job{Sc: sc, V: v})
			}
		}
	}
	var st watchreplay.Stats
	watchreplay.ReplayAll(c, jobs, &st)
	c.Set("record_shape_x_damage_classes", len(shapes))
	c.Set("real_api_calls", st.RealCalls)
	c.Set("in_memory_round_trips", st.RoundTrips)
	c.Set("records_of_real_encoder_parsed_by_reference", st.WireEncodes)
	c.Set("reference_built_records_decoded_by_real_code", st.WireDecodes)
	c.Set("truncated_records_rejected", st.Truncations)
	c.Set("records_where_model_and_real_code_both_report_an_error", st.ErrorsAgreed)
	c.Set("open_cases_real_code_accepted", st.EitherAccepted)
	c.Set("open_cases_real_code_refused", st.EitherRefused)
	c.Set("connections_replayed", st.Connections)
	c.Set("events_compared", st.EventsCompared)
	c.Set("cuts_inside_a_message", st.CutsInsideMsg)
	c.Set("exhaustive", true)
	c.Set("rule", "behaviours = complete runs of Gen_Watch printed by TLC. codec: every request shape (ad type empty/plain/with quote and backslash x constraint none/plain/with quotes x cursor nil/empty/bytes/bytes with NUL) and header shape (kind -1..6 x key x cursor over the same byte classes), intact or with one damage (kind dropped / not an integer, key / cursor not base64 or not a string, ad type dropped / not a string, constraint not a string); each x {plain, AES-GCM} x 3 byte-length classes (base64 padding) is one evaluation of four passes (in memory; real encoder -> reference parser; reference-built record -> real decoder; truncated record -> error). stream: every session of 2 connections over a change log of <=2 entries (2 keys) with <=5 events emitted, full replay (Reset, snapshot, Synced) or resume after the persisted cursor, live events, Resync / GoingAway, and cuts between or inside messages; each connection is replayed four ways (request both ways; reference server -> real reader; real server -> reference parser; real -> real), cut positions first / last / seeded byte. non-trivial = a codec record, or a session in which at least one event is delivered")
}
