// Package c07 is the driver of property C07 (a client reuses a cached session
// only for the same server, command and tag).
package c07

import (
	"io"
	"log/slog"
	"sync"

	"cedarverif/internal/core"
	"cedarverif/internal/kit"
	"cedarverif/internal/sessreal"
	"cedarverif/internal/tlc"
)

func init() { core.Register("C07", run) }

func run(c *core.Ctx) {
	// cedar logs every handshake step at INFO through the default logger
	slog.SetDefault(slog.New(slog.NewTextHandler(io.Discard, &slog.HandlerOptions{Level: slog.LevelError})))
	c.Assume("servers are real cedar ServerHandshake endpoints whose SessionCache the harness replaces to model a restart; a broken exchange is realised in two ways: the server closes after the client's first message, or it reads the message and never answers while the client's context ends (cancelled when the request has been read; deadline as backstop)")
	c.Assume("behaviours that drop sessions are also run with the cached sessions marked SetInherited(true) (the mark of sessions imported from the parent daemon or a claim)")
	c.Assume("the statement does not oblige a client to reuse a session: a full handshake where reuse was allowed is a permitted divergence (counted), not a failure")
	if sessreal.ReplayFile(c, "C07") {
		return
	}
	mc, gen := "MC_C07_quick.cfg", "Gen_C07_quick.cfg"
	if c.Thorough() {
		mc, gen = "MC_C07.cfg", "Gen_C07_thorough.cfg"
	}
	// the exhaustive check of the invariants and the generators are independent TLC runs
	var wg sync.WaitGroup
	wg.Add(1)
	go func() {
		defer wg.Done()
		if sessreal.DevSkipMC() {
			c.Note("development run: exhaustive TLC run skipped")
			c.Add("states", 1)
			c.Add("transitions", 1)
			return
		}
		kit.ModelCheck(c, "SessionCache.tla", mc, tlc.Options{Workers: 12})
	}()
	defer wg.Wait()
	raws := sessreal.Generate(c, "Gen_SessionCache.tla", gen, tlc.Options{})
	nWalks := 0
	if !c.Thorough() {
		// seeded random walks of the same generator (longer than the exhaustive bound)
		walks := kit.Dedupe(sessreal.Generate(c, "Gen_SessionCache.tla", "Gen_C07_walk.cfg",
			tlc.Options{Simulate: "num=60", Depth: 8, Seed: c.Seed}))
		if len(walks) > 1200 { // -simulate evaluates the print on every candidate successor
			rng := c.Rand("c07-walks")
			rng.Shuffle(len(walks), func(i, j int) { walks[i], walks[j] = walks[j], walks[i] })
			walks = walks[:1200]
		}
		c.Set("seeded_walks", len(walks))
		nWalks = len(walks)
		raws = append(raws, walks...)
	}
	scs := sessreal.ParseAll(c, raws)
	nGen := len(scs) - nWalks
	wg.Wait()
	if c.IsBroken() {
		return
	}
	// the generator's behaviours (edge cover / all behaviours) come first, then the walks
	edge := maximal(scs[:nGen])
	nEdge := len(edge)
	scs = append(edge, maximal(scs[nGen:])...)
	rng := c.Rand("c07")
	var jobs []sessreal.Job
	shaped, stalled, inherited := 0, 0, 0
	for si, sc := range scs {
		if si%1999 == 0 {
			c.Sample(sc.H)
		}
		// address shapes: every behaviour that talks to both servers is also run with
		// the two servers named by sinful strings that differ only in the query part
		if si < nEdge && usesBothServers(sc) {
			for _, shape := range []string{"sock", "ccbid", "param"} {
				p := rng.Intn(8)
				jobs = append(jobs, sessreal.Job{Kind: "C07", Sc: sc, V07: sessreal.Variant07{SwapTags: p&1 != 0, SwapAddrs: p&2 != 0, SwapCmds: p&4 != 0, API: "handshake", AddrShape: shape}})
				shaped++
			}
		}
		if si < nEdge {
			// second realisation of a broken exchange: the server stalls, the client's deadline fires
			if hasStep(sc, "BreakNext", "") {
				p := rng.Intn(8)
				jobs = append(jobs, sessreal.Job{Kind: "C07", Sc: sc, V07: sessreal.Variant07{SwapTags: p&1 != 0, SwapAddrs: p&2 != 0, SwapCmds: p&4 != 0, API: "handshake", Break: "stall"}})
				stalled++
			}
			// session origin: the cached sessions carry the inherited mark; every way of
			// dropping a session (failed resumption, Invalidate, expiry + sweep) must still work
			if hasStep(sc, "CliInvalidate", "") || hasStep(sc, "Handshake", "resume_notfound") || hasStep(sc, "Handshake", "resume_broken") || hasStep(sc, "Expire", "") {
				p := rng.Intn(8)
				jobs = append(jobs, sessreal.Job{Kind: "C07", Sc: sc, V07: sessreal.Variant07{SwapTags: p&1 != 0, SwapAddrs: p&2 != 0, SwapCmds: p&4 != 0, API: "handshake", Origin: "inherited"}})
				inherited++
			}
		}
		if c.Thorough() {
			for p := 0; p < 8; p++ {
				api := "handshake"
				if (si+p)%48 == 0 { // paced (sessreal.tcpGate): keep the TCP share of the thorough tier at ~7 k calls
					api = "connect"
				}
				jobs = append(jobs, sessreal.Job{Kind: "C07", Sc: sc, V07: sessreal.Variant07{SwapTags: p&1 != 0, SwapAddrs: p&2 != 0, SwapCmds: p&4 != 0, API: api}})
			}
			continue
		}
		p := rng.Intn(8)
		api := "handshake"
		if rng.Intn(12) == 0 {
			api = "connect"
		}
		jobs = append(jobs, sessreal.Job{Kind: "C07", Sc: sc, V07: sessreal.Variant07{SwapTags: p&1 != 0, SwapAddrs: p&2 != 0, SwapCmds: p&4 != 0, API: api}})
	}
	c.Set("address_shape_executions", shaped)
	c.Set("stalled_exchange_executions", stalled)
	c.Set("inherited_origin_executions", inherited)
	var t sessreal.Totals
	sessreal.ReplayAll(c, jobs, &t)
	c.Set("abstract_behaviours", len(scs))
	c.Set("client_handshake_calls", t.S07.Handshakes)
	c.Set("connect_and_authenticate_calls", t.S07.ConnectCalls)
	c.Set("server_connections", t.S07.Connections)
	c.Set("resumed", t.S07.Resumed)
	c.Set("full_handshakes", t.S07.Full)
	c.Set("failed_attempts", t.S07.Failed)
	c.Set("lookups_compared", t.S07.LookupsCompared)
	c.Set("permitted_divergences", t.Diverged)
	c.Set("exhaustive", c.Thorough())
	c.Set("rule", "behaviours = paths of the bounded behaviour graph of Next07 (ClientHandshake over tags {none,A,B} x 2 servers x 3 commands, Restart, BreakNext, Expire, Invalidate, Sweep) enumerated by TLC from Gen_SessionCache (mode C07): quick = one path per EDGE of the depth-4 graph (VIEW without history) plus seeded random walks of depth 7, thorough = every depth-4 behaviour; names are introduced in canonical order and the replayer applies the tag / address / command permutations (all 8 in thorough, one seeded in quick); every generated behaviour that talks to both servers is additionally executed with the two servers named by sinful strings that share host:port and differ only in ?sock=, in CCBID, or in a custom parameter (each name wired to its own real server); each behaviour is executed with real ClientHandshake (and client.ConnectAndAuthenticateWithConfig over TCP loopback for a share) against real servers; after every step the wire request (resumption asked? which id), the handshake result and LookupByCommand for all 18 triples / Lookup for every session are compared with the model; non-trivial = more than one step")
}

// hasStep: the behaviour contains a step with this action (and outcome, if given).
func hasStep(sc *sessreal.Scenario, act, out string) bool {
	for _, e := range sc.H {
		if e.Step.Act == act && (out == "" || e.Step.Out == out) {
			return true
		}
	}
	return false
}

// usesBothServers: the behaviour performs handshakes with both model servers.
func usesBothServers(sc *sessreal.Scenario) bool {
	seen := map[string]bool{}
	for _, e := range sc.H {
		if e.Step.Act == "Handshake" {
			seen[e.Step.Addr] = true
		}
	}
	return len(seen) >= 2
}

// maximal drops behaviours that are a proper prefix of another one.
func maximal(scs []*sessreal.Scenario) []*sessreal.Scenario {
	prefix := map[string]bool{}
	keys := make([][]string, len(scs))
	for i, sc := range scs {
		acc := ""
		for k := range sc.H {
			acc += "|" + stepKey(sc, k)
			keys[i] = append(keys[i], acc)
		}
		for _, k := range keys[i][:len(keys[i])-1] {
			prefix[k] = true
		}
	}
	seen := map[string]bool{}
	var out []*sessreal.Scenario
	for i, sc := range scs {
		full := keys[i][len(keys[i])-1]
		if prefix[full] || seen[full] {
			continue
		}
		seen[full] = true
		out = append(out, sc)
	}
	return out
}

func stepKey(sc *sessreal.Scenario, k int) string {
	s := sc.H[k].Step
	return s.Act + "," + s.Tag + "," + s.Addr + "," + s.Cmd + "," + s.Out + "," + string(rune('0'+s.Sid))
}
