// Package c01 is the driver of property C01 (framed messages round-trip
// byte-exactly under any chunking, plain or encrypted).
package c01

import (
	"encoding/json"
	"fmt"
	"sync"
	"time"

	"cedarverif/internal/core"
	"cedarverif/internal/framereplay"
	"cedarverif/internal/kit"
	"cedarverif/internal/tlc"
)

func init() { core.Register("C01", run) }

type genJob struct {
	cfg     string
	opt     tlc.Options
	dribble []int // receiver connection variants to replay each behaviour with
	out     []json.RawMessage
}

func run(c *core.Ctx) {
	c.Assume("AES-GCM of the Go standard library is correct; payload bytes are abstract (message, offset, length) segments in the model and a seeded pseudo-random function of (message, offset) in the replay")
	c.Assume("a stream-level sender may refuse any size (the statement quantifies over sizes the sender accepts); reading past the end of a message is outside the statement")
	if framereplay.ReplayFile(c) {
		return
	}

	mcs := []string{"MC_C01_comp_quick.cfg", "MC_C01_sizes.cfg"}
	gens := []*genJob{
		{cfg: "Gen_C01_sizes_quick.cfg", dribble: []int{0}},
		{cfg: "Gen_C01_comp_cuts.cfg", dribble: []int{0, 1}},
		{cfg: "Gen_C01_comp_tcuts.cfg", dribble: []int{0, 3}},
		{cfg: "Gen_C01_comp_reads.cfg", dribble: []int{0, 2}},
		{cfg: "Gen_C01_comp_pairs.cfg", dribble: []int{0, 1}},
		{cfg: "Gen_C01_abandon.cfg", dribble: []int{0}},
		{cfg: "Gen_C01_typed_multi.cfg", dribble: []int{0}},
		{cfg: "Gen_C01_typed_sb.cfg", dribble: []int{0}},
		{cfg: "Gen_C01_sizes_sim.cfg", dribble: []int{0}, opt: tlc.Options{Simulate: "num=120", Depth: 40, Seed: c.Seed}},
	}
	if c.Thorough() {
		mcs = []string{"MC_C01_comp.cfg", "MC_C01_sizes_thorough.cfg"}
		gens = []*genJob{
			{cfg: "Gen_C01_sizes_pairs.cfg", dribble: []int{0}},
			{cfg: "Gen_C01_sizes_writes.cfg", dribble: []int{0}},
			{cfg: "Gen_C01_comp_full.cfg", dribble: []int{0, 1}},
			{cfg: "Gen_C01_comp_pairs.cfg", dribble: []int{0, 1, 2}},
			{cfg: "Gen_C01_abandon.cfg", dribble: []int{0, 1}},
			{cfg: "Gen_C01_typed_multi.cfg", dribble: []int{0, 100}},
			{cfg: "Gen_C01_typed_sb.cfg", dribble: []int{0}},
			{cfg: "Gen_C01_sizes_sim.cfg", dribble: []int{0}, opt: tlc.Options{Simulate: "num=1000", Depth: 40, Seed: c.Seed}},
		}
	}

	// All TLC runs are independent of each other and of /repo: run them together.
	var wg sync.WaitGroup
	for _, cfg := range mcs {
		wg.Add(1)
		go func(cfg string) {
			defer wg.Done()
			kit.ModelCheck(c, "Framing.tla", cfg, tlc.Options{Workers: 8, Timeout: 45 * time.Minute})
		}(cfg)
	}
	for _, g := range gens {
		wg.Add(1)
		go func(g *genJob) {
			defer wg.Done()
			g.opt.Timeout = 45 * time.Minute // generous: the machine may be shared
			g.out = kit.Dedupe(kit.Generate(c, "Gen_Framing.tla", g.cfg, g.opt))
		}(g)
	}
	wg.Wait()
	if c.IsBroken() {
		return
	}

	var jobs []framereplay.Job
	salt := int(c.Seed % 100000)
	classes := map[string]int{}
	for _, g := range gens {
		scs := framereplay.Parse(c, g.out)
		if c.IsBroken() {
			return
		}
		c.Add("behaviours:"+g.cfg, int64(len(scs)))
		for i, sc := range scs {
			if i == 0 || (i == len(scs)/2 && len(scs) > 2) {
				c.Sample(map[string]any{"cfg": g.cfg, "enc": sc.Enc, "sapi": sc.Sapi, "rapi": sc.Rapi, "sent": sc.Sent, "frames": len(sc.Wire), "calls": len(sc.Hist)})
			}
			classes[fmt.Sprintf("%v/%s/%s", sc.Enc, sc.Sapi, sc.Rapi)]++
			for _, d := range g.dribble {
				jobs = append(jobs, framereplay.Job{Sc: sc, V: framereplay.Variant{Salt: salt, Dribble: d}})
			}
		}
	}
	var st framereplay.Stats
	framereplay.ReplayAll(c, jobs, &st)
	c.Set("mode_x_sender_x_receiver_classes", len(classes))
	c.Set("real_api_calls", st.RealCalls)
	c.Set("frames_of_real_sender_parsed_by_reference", st.FramesParsed)
	c.Set("frames_of_real_sender_opened_by_reference_decryptor", st.FramesOpened)
	c.Set("reference_built_frames_fed_to_real_receivers", st.RefFramesFed)
	c.Set("messages_compared_byte_for_byte", st.MessagesChecked)
	c.Set("payload_bytes_through_real_sender", st.Bytes)
	c.Set("behaviours_where_real_sender_cut_frames_like_the_model", st.ModelCutsMatch)
	if st.SenderStricter > 0 {
		c.Note(fmt.Sprintf("observation (not a violation): in %d behaviours the real stream-level sender refused a frame the model accepts", st.SenderStricter))
	}
	if st.SenderLenient > 0 {
		c.Note(fmt.Sprintf("observation (not a violation): in %d behaviours the real sender accepted a frame longer than Max on the wire and the real receiver accepted it too", st.SenderLenient))
	}
	if st.FormatDeviations > 0 {
		c.Set("reference_format_deviations", st.FormatDeviations)
		c.Note(fmt.Sprintf("observation (outside C01, see C12): in %d behaviours two real endpoints round-trip correctly but one side differs from the reference codec's wire format", st.FormatDeviations))
	}
	c.Set("exhaustive", true)
	c.Set("rule", "behaviours = complete runs of Gen_Framing printed by TLC: (i) every sequence of <=2 messages (quick: second only after a 1-byte first) of one write each over the critical size set {0,1,4095..4097,16383..16385,Max-33..Max-31,Max-17..Max-15,Max-1..Max+1,2Max+5} plus typed PutString lengths and PutStringBytes of k*Max, k*(Max-32) (k=1,2) +-1 alone or next to another value, x 2 encryption modes x 3 sender APIs x 3 receiver APIs, plus seeded simulation of <=2 messages x <=3 writes (thorough: all pairs, all 2-write patterns); (ii) every composition of a 1..6 byte message into frames through SendPartialMessage/SendMessage and Message.PutBytes+FlushFrame, every composition of its reads, pairs of 0..2 byte messages with zero-length writes; (iii) typed messages of <=3 values of 100 B / 12 KiB (explicit and automatic flushes) read by <=3 GetBytes + GetRemainingBytes. Every slice a receive call returns is retained uncopied and compared again after the whole behaviour has been read. Each behaviour x connection variant (whole reads / 1..3-byte dribble) is one evaluation made of three passes (real sender -> reference parser/decryptor; real sender -> real receiver; reference-built frames at the model's cuts -> real receiver); non-trivial = at least one message completely sent")
}
