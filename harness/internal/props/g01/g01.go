// Package g01 is the driver of growth module G01: the CCB listener
// (ccb/listener.go) against CCBListener.tla.
package g01

import (
	"sync"
	"time"

	"cedarverif/internal/ccblisten"
	"cedarverif/internal/core"
	"cedarverif/internal/kit"
	"cedarverif/internal/tlc"
)

func init() { core.Register("G01", run) }

type genCfg struct{ name, cfg string }

// generous: TLC shares the machine with other checks
const tlcTimeout = 45 * time.Minute

func run(c *core.Ctx) {
	c.Assume("timing: what the model says must happen (a re-registration after a failure, the reply to a request on a live connection, the granted contact in Contacts(), Run returning after its context ended) happens within 6 s (a difference is re-run with 40 s); what it says may happen is looked for during 0.3 s (3 s); a heartbeat arrives within 38 s (50 s) of the registration being at rest; observed scripts outside the generated set are judged by the invariants only")
	c.Assume("the scripted brokers are cedar's own server package (real CCB_REGISTER security handshake, plaintext policy); only the CCB level is scripted; requesters are loopback sockets (listening = accepts the dial-back, bound but not listening = refuses it)")
	c.Assume("a request in flight when its broker connection drops or the context ends may be served, abandoned, answered on the next connection or not at all; after an explicit refusal of a registration the next one may present the old cookie or nothing (CCBListener.tla is permissive there)")
	c.Assume("two-broker listeners: each broker's observation is judged against the one-broker model (the registrations are independent: MC_G01_two.cfg checks the action property Independent on the two-broker product)")
	mcs := []string{"MC_G01_quick_conn.cfg", "MC_G01_quick_req.cfg", "MC_G01_hb.cfg", "MC_G01_two.cfg", "MC_G01_live.cfg"}
	gens := []genCfg{{"hb", "Gen_G01_hb.cfg"}, {"reg", "Gen_G01_reg.cfg"}, {"req", "Gen_G01_req_quick.cfg"}}
	if c.Thorough() {
		mcs = []string{"MC_G01.cfg", "MC_G01_hb.cfg", "MC_G01_two.cfg", "MC_G01_live.cfg"}
		gens[2].cfg = "Gen_G01_req.cfg"
	}
	tabs := map[string]*ccblisten.Table{}
	var mu sync.Mutex
	nBeh := 0
	gen := func(g genCfg) {
		raws := kit.Generate(c, "Gen_CCBListener.tla", g.cfg, tlc.Options{Timeout: tlcTimeout})
		if raws == nil {
			return
		}
		t, err := ccblisten.BuildTable(raws)
		if err != nil {
			c.Broken("bad behaviour JSON (%s): %v", g.cfg, err)
			return
		}
		mu.Lock()
		tabs[g.name] = t
		nBeh += len(raws)
		mu.Unlock()
		if len(raws) > 0 {
			c.Sample(string(raws[len(raws)/2]))
		}
	}
	var st ccblisten.Stats
	rng := c.Rand("g01")

	// The heartbeat scripts need 30 s of real time each (the listener's floor on the
	// heartbeat interval): their table is generated first and they run in the
	// background while TLC does the rest.
	gen(gens[0])
	if c.IsBroken() {
		return
	}
	var hbWG sync.WaitGroup
	var hbJobs []ccblisten.Job
	if c.Replay == "" {
		var ticks, noticks [][]ccblisten.Ev
		for _, sc := range tabs["hb"].Scripts {
			if ccblisten.Has(sc, "tick") > 0 {
				ticks = append(ticks, sc)
			} else {
				noticks = append(noticks, sc)
			}
		}
		rng.Shuffle(len(ticks), func(i, j int) { ticks[i], ticks[j] = ticks[j], ticks[i] })
		n := 12
		if c.Thorough() {
			n = len(ticks)
		}
		if n > len(ticks) {
			n = len(ticks)
		}
		for _, sc := range ticks[:n] {
			hbJobs = append(hbJobs, ccblisten.Job{Table: "hb", Script: sc, P: ccblisten.Params{Salt: rng.Intn(1 << 20)}})
		}
		hbTabs := map[string]*ccblisten.Table{"hb": tabs["hb"]} // (tabs itself is still being filled)
		hbWG.Add(1)
		go func() {
			defer hbWG.Done()
			core.ParallelFor(len(hbJobs), len(hbJobs), func(i int) { ccblisten.RunJob(c, hbTabs, hbJobs[i], &st) })
		}()
	}

	// the remaining TLC runs are independent of each other: run them side by side
	var wg sync.WaitGroup
	if c.Replay == "" {
		for _, m := range mcs {
			wg.Add(1)
			go func(m string) {
				defer wg.Done()
				w := 4
				if m == "MC_G01.cfg" {
					w = 12 // 8.1 M states
				}
				kit.ModelCheck(c, "CCBListener.tla", m, tlc.Options{Workers: w, Timeout: tlcTimeout})
			}(m)
		}
	}
	for _, g := range gens[1:] {
		wg.Add(1)
		go func(g genCfg) { defer wg.Done(); gen(g) }(g)
	}
	wg.Wait()
	if c.IsBroken() {
		hbWG.Wait()
		return
	}
	if c.Replay != "" {
		ccblisten.ReplayFile(c, tabs)
		return
	}

	// quick: a seeded sample of ~350 scripts per configuration (every script with at most
	// three environment steps first); thorough: every script, the small ones several times
	// with different concrete members.
	var jobs []ccblisten.Job
	nScripts := len(tabs["hb"].Scripts)
	for _, g := range gens[1:] {
		t := tabs[g.name]
		nScripts += len(t.Scripts)
		var small, rest [][]ccblisten.Ev
		for _, sc := range t.Scripts {
			// the real listener always reconnects on a malformed message; scripts in which it
			// skips one are cut short at that point, so a tenth of them is enough in the quick tier
			skipped := false
			for i, e := range sc {
				if e.E == "snd" && e.M == "malformed" && (i+1 >= len(sc) || sc[i+1].E != "reg") {
					skipped = true
				}
			}
			if skipped && !c.Thorough() && rng.Intn(10) != 0 {
				continue
			}
			if len(sc) <= 6 {
				small = append(small, sc)
			} else {
				rest = append(rest, sc)
			}
		}
		rng.Shuffle(len(rest), func(i, j int) { rest[i], rest[j] = rest[j], rest[i] })
		rng.Shuffle(len(small), func(i, j int) { small[i], small[j] = small[j], small[i] })
		budget := 350
		if c.Thorough() {
			budget = len(small) + len(rest)
		}
		pick := small
		if len(pick) > budget/2 && !c.Thorough() {
			pick = pick[:budget/2]
		}
		if n := budget - len(pick); n > 0 {
			if n > len(rest) {
				n = len(rest)
			}
			pick = append(append([][]ccblisten.Ev{}, pick...), rest[:n]...)
		}
		for _, sc := range pick {
			reps := 1
			if c.Thorough() && len(sc) <= 6 {
				reps = 3
			}
			for k := 0; k < reps; k++ {
				p := ccblisten.Params{Salt: rng.Intn(1 << 20)}
				p.Companion = rng.Intn(4) == 0
				p.Shared = ccblisten.Has(sc, "fwd") > 1 && rng.Intn(3) == 0
				if ccblisten.Has(sc, "fwd") > 0 && t.Deterministic(sc) && rng.Intn(2) == 0 {
					p.Burst = 2 + rng.Intn(7)
					if rng.Intn(3) == 0 {
						p.Burst = 12 + rng.Intn(8)
					}
				}
				jobs = append(jobs, ccblisten.Job{Table: g.name, Script: sc, P: p})
			}
		}
	}
	rng.Shuffle(len(jobs), func(i, j int) { jobs[i], jobs[j] = jobs[j], jobs[i] })
	ccblisten.ReplayAll(c, tabs, jobs, 48, &st)
	hbWG.Wait()
	nJobs := len(jobs) + len(hbJobs)
	c.Add("traces_validated_against_impl", st.Conform)
	c.Set("model_behaviours", nBeh)
	c.Set("environment_scripts", nScripts)
	c.Set("listener_runs", nJobs)
	c.Set("registrations_seen_by_scripted_brokers", st.Registrations)
	c.Set("re_registrations", st.Reconnects)
	c.Set("requests_forwarded", st.Requests)
	c.Set("requests_forwarded_as_burst_members", st.BurstMembers)
	c.Set("dialbacks_with_hello", st.Hellos)
	c.Set("failure_replies", st.FailReplies)
	c.Set("heartbeats_waited_for", st.Heartbeats)
	c.Set("two_broker_runs", st.Companions)
	c.Set("runs_rerun_with_long_waits", st.Retried)
	c.Set("observed_scripts_outside_generated_set", st.UnknownScript)
	c.Set("differences_not_rerun_after_three_reproductions", st.Suppressed)
	if c.Failures() == 0 && (st.Reconnects == 0 || st.Hellos == 0 || st.FailReplies == 0 || st.Heartbeats == 0 || st.Companions == 0) {
		c.Broken("G01 replay is vacuous: reconnects=%d hellos=%d failure replies=%d heartbeats=%d two-broker runs=%d",
			st.Reconnects, st.Hellos, st.FailReplies, st.Heartbeats, st.Companions)
	}
	if st.UnknownScript*20 > int64(nJobs) {
		c.Broken("G01: %d of %d runs produced scripts outside the generated set (timing assumptions do not hold on this machine)", st.UnknownScript, nJobs)
	}
	c.Set("exhaustive", c.Thorough())
	c.Set("rule", "behaviours = every interleaving of the scripted environment (a broker answering a registration: fresh grant / same id / grant without cookie / refusal / hang-up / garbage; forwarding up to two requests, sequentially or concurrently, to a requester that accepts / refuses / has no usable address; ALIVE, unknown and malformed messages; dropping the connection at rest or with a request in flight; a heartbeat being waited for; the context ending at any point) with the listener's internal steps, printed by TLC from Gen_CCBListener; behaviours with the same environment script form its set of admissible outcomes; each script is one REAL ccb.Listener.Run against scripted brokers built on cedar's server package and loopback requesters; abstract classes expand to concrete members by a seeded salt (which garbage, which refusal ad, address spelling, route attributes, burst of 2-19 concrete requests per model request on deterministic scripts, with long echoed addresses, shared requester address, a second undisturbed broker); quick replays a seeded sample (about 350 scripts per configuration and 12 heartbeat scripts), thorough every script; non-trivial = script with at least two environment steps besides the first registration and the end")
}
