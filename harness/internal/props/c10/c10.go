// Package c10 is the driver of property C10: honest peers negotiate by the
// policy table and agree on the result.
//
// TLC checks spec/Handshake.tla over the whole configuration product
// (MC_C10.cfg) and, through Gen_Handshake.tla, prints for every selected
// configuration the independent decision table Expected(c, s) and the terminal
// states of the model's two ends. Every selected configuration is then run on
// two REAL cedar endpoints (internal/hsreal) and the projection of both
// SecurityNegotiation results, of the wire and of one application message each
// way is compared with the model.
package c10

import (
	"cedarverif/internal/ltrace"
	"encoding/json"
	"fmt"
	"os"
	"path/filepath"
	"sort"
	"strings"
	"sync"
	"time"

	"cedarverif/internal/core"
	"cedarverif/internal/hsreal"
	"cedarverif/internal/kit"
	"cedarverif/internal/tlc"
)

func init() { core.Register("C10", run) }

var levels = []string{"REQUIRED", "PREFERRED", "OPTIONAL", "NEVER"}

// the list shapes of MC_C10.cfg (Lists8 / Ciphers4 in Handshake.tla)
var lists8 = [][]string{{}, {"A"}, {"B"}, {"A", "B"}, {"B", "A"}, {"U"}, {"U", "A"}, {"X"}}
var ciphers4 = [][]string{{}, {"AES"}, {"BF"}, {"BF", "AES"}}

type exp struct {
	OK     bool   `json:"ok"`
	Auth   string `json:"auth"` // yes | no | either
	Enc    string `json:"enc"`
	Method string `json:"method"`
	Cipher string `json:"cipher"`
}

type proj struct {
	OK     bool   `json:"ok"`
	Why    string `json:"why"`
	Auth   bool   `json:"auth"`
	Enc    bool   `json:"enc"`
	Method string `json:"method"`
}

// term is one terminal state of the model for a configuration.
type term struct {
	C     proj `json:"c"`
	S     proj `json:"s"`
	Agree bool `json:"agree"`
	Ran   struct {
		C string `json:"c"`
		S string `json:"s"`
	} `json:"ran"`
	App struct {
		C bool `json:"c"`
		S bool `json:"s"`
	} `json:"app"`
}

// scenario is one configuration with everything the model says about it.
type scenario struct {
	Kind  string        `json:"kind"` // "C10"
	Cfg   hsreal.AbsCfg `json:"cfg"`
	Exp   exp           `json:"exp"`
	Terms []term        `json:"terms"`
	BName string        `json:"b_name"`          // concrete member for usable method "B"
	Alias string        `json:"alias,omitempty"` // alias-name sweep: which end lists both spellings of the token method
}

type row struct {
	CM  []string `json:"cm"`
	SM  []string `json:"sm"`
	CX  []string `json:"cx"`
	SX  []string `json:"sx"`
	Cmd bool     `json:"cmd"`
}

// pairwiseRows returns a seeded pairwise cover of (cm, sm, cx, sx, cmd) plus a
// few fixed rows (every shape against itself with AES on both ends).
func pairwiseRows(c *core.Ctx) []row {
	sizes := []int{len(lists8), len(lists8), len(ciphers4), len(ciphers4), 2}
	rng := c.Rand("c10-pairwise")
	type pr struct{ f1, v1, f2, v2 int }
	unc := map[pr]bool{}
	for f1 := 0; f1 < len(sizes); f1++ {
		for f2 := f1 + 1; f2 < len(sizes); f2++ {
			for v1 := 0; v1 < sizes[f1]; v1++ {
				for v2 := 0; v2 < sizes[f2]; v2++ {
					unc[pr{f1, v1, f2, v2}] = true
				}
			}
		}
	}
	gain := func(t []int) int {
		g := 0
		for f1 := 0; f1 < len(t); f1++ {
			for f2 := f1 + 1; f2 < len(t); f2++ {
				if unc[pr{f1, t[f1], f2, t[f2]}] {
					g++
				}
			}
		}
		return g
	}
	// deterministic choice (map iteration order must not influence the rows)
	firstUncovered := func() pr {
		for f1 := 0; f1 < len(sizes); f1++ {
			for f2 := f1 + 1; f2 < len(sizes); f2++ {
				for v1 := 0; v1 < sizes[f1]; v1++ {
					for v2 := 0; v2 < sizes[f2]; v2++ {
						if unc[pr{f1, v1, f2, v2}] {
							return pr{f1, v1, f2, v2}
						}
					}
				}
			}
		}
		return pr{}
	}
	var tuples [][]int
	add := func(t []int) {
		tuples = append(tuples, t)
		for f1 := 0; f1 < len(t); f1++ {
			for f2 := f1 + 1; f2 < len(t); f2++ {
				delete(unc, pr{f1, t[f1], f2, t[f2]})
			}
		}
	}
	for i := range lists8 { // fixed rows
		add([]int{i, i, 1, 1, 1})
	}
	for len(unc) > 0 {
		var best []int
		bg := -1
		for k := 0; k < 60; k++ {
			t := make([]int, len(sizes))
			for f := range t {
				t[f] = rng.Intn(sizes[f])
			}
			if k == 0 { // seed the candidate with an uncovered pair so that progress is guaranteed
				p := firstUncovered()
				t[p.f1], t[p.f2] = p.v1, p.v2
			}
			if g := gain(t); g > bg {
				bg, best = g, t
			}
		}
		add(best)
	}
	rows := make([]row, 0, len(tuples))
	seen := map[string]bool{}
	for _, t := range tuples {
		k := fmt.Sprint(t)
		if seen[k] {
			continue
		}
		seen[k] = true
		rows = append(rows, row{CM: lists8[t[0]], SM: lists8[t[1]], CX: ciphers4[t[2]], SX: ciphers4[t[3]], Cmd: t[4] == 1})
	}
	return rows
}

func cfgKey(a hsreal.AbsCfg) string {
	b, _ := json.Marshal(a)
	return string(b)
}

// generate runs the Gen_Handshake partitions in parallel and groups the printed
// terminal states by configuration.
func generate(c *core.Ctx, cfgFile, rowsFile string, parts [][2]string, encLevel string) []*scenario {
	var mu sync.Mutex
	by := map[string]*scenario{}
	var order []string
	core.ParallelFor(len(parts), 8, func(i int) {
		// many TLC processes run side by side: keep each JVM small (its default heap is 1/4 of the RAM)
		env := []string{"C10_CAUTH=" + parts[i][0], "C10_SAUTH=" + parts[i][1], "C10_ENC=" + encLevel, "C10_ROWS=" + rowsFile,
			"JAVA_TOOL_OPTIONS=-Xmx2g"}
		raws := kit.Generate(c, "Gen_Handshake.tla", cfgFile, tlc.Options{Env: env, Timeout: 40 * time.Minute})
		for _, r := range raws {
			var w struct {
				Scn struct {
					Cfg hsreal.AbsCfg `json:"cfg"`
					Exp exp           `json:"exp"`
					term
				} `json:"scn"`
			}
			if err := json.Unmarshal(r, &w); err != nil {
				c.Broken("bad scenario JSON from TLC: %v", err)
				return
			}
			k := cfgKey(w.Scn.Cfg)
			mu.Lock()
			sc := by[k]
			if sc == nil {
				sc = &scenario{Kind: "C10", Cfg: w.Scn.Cfg, Exp: w.Scn.Exp, BName: "TOKEN"}
				by[k] = sc
				order = append(order, k)
			}
			sc.Terms = append(sc.Terms, w.Scn.term)
			mu.Unlock()
		}
	})
	sort.Strings(order)
	out := make([]*scenario, 0, len(order))
	for _, k := range order {
		out = append(out, by[k])
	}
	return out
}

// diff is one conformance difference.
type diff struct {
	Inv    string // invariant of Handshake.tla the real execution breaks
	Class  string // sub-class (stable)
	Field  string // "auth" | "enc" | "both"
	Detail string
}

// compare checks one real execution against the model's statement for the
// configuration. It returns nil when the execution conforms.
func compare(sc *scenario, r *hsreal.Result) *diff {
	e := sc.Exp
	C, S := &r.C, &r.S
	// Which policy dimension a wrong success / failure / hang is attributed to (it
	// decides which keys the signature carries): a dimension is "interesting" when
	// its two levels conflict, when it is demanded without a usable common member,
	// or when the common members include names cedar cannot run.
	field := func() string {
		conflict := func(a, b string) bool {
			return (a == "REQUIRED" && b == "NEVER") || (a == "NEVER" && b == "REQUIRED")
		}
		mc := hsreal.MethodClass(sc.Cfg.C.Methods, sc.Cfg.S.Methods)
		cc := hsreal.CipherClass(sc.Cfg.C.Ciphers, sc.Cfg.S.Ciphers)
		authI := conflict(sc.Cfg.C.Auth, sc.Cfg.S.Auth) || (mc != "usable" && mc != "nocommon") || (e.Auth == "yes" && e.Method == "NONE")
		encI := conflict(sc.Cfg.C.Enc, sc.Cfg.S.Enc) || (cc != "aes" && cc != "nocommon") || (e.Enc == "yes" && e.Cipher == "NONE")
		switch {
		case sc.BName != "TOKEN":
			return "auth"
		case authI && encI:
			return "both"
		case encI:
			return "enc"
		}
		return "auth"
	}
	if C.TimedOut || S.TimedOut {
		return &diff{"FailsExactlyWhen", "hangs", field(), fmt.Sprintf("handshake hangs until the deadline: client=%q server=%q (model: ok=%v)", C.Err, S.Err, e.OK)}
	}
	// FailsExactlyWhen
	if C.OK != S.OK {
		return &diff{"FailsExactlyWhen", "one-sided", field(), fmt.Sprintf("client ok=%v (%s) but server ok=%v (%s); model: ok=%v", C.OK, C.Err, S.OK, S.Err, e.OK)}
	}
	if C.OK != e.OK {
		if e.OK {
			return &diff{"FailsExactlyWhen", "fails-but-table-says-succeed", field(),
				fmt.Sprintf("handshake fails (client: %s; server: %s) but the table says it succeeds with auth=%s enc=%s method=%s", C.Err, S.Err, e.Auth, e.Enc, e.Method)}
		}
		return &diff{"FailsExactlyWhen", "succeeds-but-table-says-fail", field(),
			fmt.Sprintf("handshake succeeds (auth c/s=%v/%v enc c/s=%v/%v) but the table says it must fail", C.Auth, S.Auth, C.Enc, S.Enc)}
	}
	wp := hsreal.ObserveFull(r.C2S.In, r.S2C.In, b2i(C.AppSent))
	if !e.OK {
		// DenialIsExplicit: the client must not learn of the failure from a bare close
		if C.BareClose {
			return &diff{"DenialIsExplicit", "bare-close", field(), fmt.Sprintf("client sees a bare close: %s (denial on the wire: %v)", C.Err, wp.Denied)}
		}
		return nil
	}
	// both succeeded
	if C.Auth != S.Auth {
		return &diff{"BothAgree", "auth-flag", "auth", fmt.Sprintf("Authentication: client=%v server=%v (table: %s, method %s); exchange on the wire: %v", C.Auth, S.Auth, e.Auth, e.Method, wp.MethodBytes > 0)}
	}
	if C.Enc != S.Enc {
		return &diff{"BothAgree", "enc-flag", "enc", fmt.Sprintf("Encryption: client=%v server=%v (table: %s)", C.Enc, S.Enc, e.Enc)}
	}
	if C.Sid != S.Sid || C.Sid == "" {
		return &diff{"BothAgree", "session-id", "none", fmt.Sprintf("SessionId: client=%q server=%q", C.Sid, S.Sid)}
	}
	if C.KeyHash != S.KeyHash {
		return &diff{"BothAgree", "key", "enc", fmt.Sprintf("shared secret differs: client=%s server=%s", C.KeyHash, S.KeyHash)}
	}
	if C.Auth && C.Method != S.Method {
		return &diff{"BothAgree", "method", "auth", fmt.Sprintf("NegotiatedAuth: client=%s server=%s", C.Method, S.Method)}
	}
	// FollowsTable: the (auth, method, enc) outcome must be one the model reaches
	wantM := hsreal.ConcreteMethod(e.Method, sc.BName)
	switch e.Auth {
	case "yes":
		if !S.Auth {
			return &diff{"FollowsTable", "auth-must-run", "auth", fmt.Sprintf("table: authentication runs with %s; both ends report Authentication=false", wantM)}
		}
		if S.Method != wantM {
			return &diff{"FollowsTable", "auth-wrong-method", "auth", fmt.Sprintf("table: method %s (server order, usable); reported %s", wantM, S.Method)}
		}
	case "no":
		if S.Auth {
			return &diff{"FollowsTable", "auth-must-not-run", "auth", "table: no authentication; both ends report Authentication=true"}
		}
	}
	if S.Auth != (wp.MethodBytes > 0) {
		return &diff{"FollowsTable", "auth-flag-vs-wire", "auth", fmt.Sprintf("both ends report Authentication=%v but an authentication exchange on the wire: %v", S.Auth, wp.MethodBytes > 0)}
	}
	encOn := C.StreamEnc && S.StreamEnc
	switch e.Enc {
	case "yes":
		if !encOn {
			return &diff{"FollowsTable", "enc-must-be-on", "enc", fmt.Sprintf("table: encryption on; Stream.IsEncrypted client=%v server=%v (reported %v/%v)", C.StreamEnc, S.StreamEnc, C.Enc, S.Enc)}
		}
	case "no":
		if C.StreamEnc || S.StreamEnc {
			return &diff{"FollowsTable", "enc-cannot-be-on", "enc", "no mutually usable cipher, yet a stream is encrypted"}
		}
	}
	if C.StreamEnc != S.StreamEnc {
		return &diff{"BothAgree", "stream-enc", "enc", fmt.Sprintf("Stream.IsEncrypted: client=%v server=%v", C.StreamEnc, S.StreamEnc)}
	}
	// membership in the model's terminal states (redundant with the above, kept as the binding)
	found := false
	for _, t := range sc.Terms {
		if t.S.OK && t.S.Auth == S.Auth && (e.Enc == "either" || t.S.Enc == encOn) &&
			(!S.Auth || hsreal.ConcreteMethod(t.S.Method, sc.BName) == S.Method) {
			found = true
		}
	}
	if !found {
		return &diff{"FollowsTable", "not-a-model-outcome", field(), fmt.Sprintf("outcome auth=%v method=%s enc=%v is not a terminal state of the model", S.Auth, S.Method, encOn)}
	}
	// CanTalkBothWays
	if !(C.AppAccepted && C.AppIntact && S.AppAccepted && S.AppIntact) {
		return &diff{"CanTalkBothWays", "app-exchange", "enc", fmt.Sprintf("application message exchange after the handshake: client accepted=%v intact=%v (%s), server accepted=%v intact=%v (%s)",
			C.AppAccepted, C.AppIntact, C.AppErr, S.AppAccepted, S.AppIntact, S.AppErr)}
	}
	return nil
}

func b2i(b bool) int {
	if b {
		return 1
	}
	return 0
}

func signature(sc *scenario, d *diff) map[string]string {
	sig := map[string]string{"spec": "Handshake", "inv": d.Inv, "class": d.Class}
	if d.Field == "auth" || d.Field == "both" {
		sig["cauth"], sig["sauth"] = sc.Cfg.C.Auth, sc.Cfg.S.Auth
		sig["methods"] = hsreal.MethodClass(sc.Cfg.C.Methods, sc.Cfg.S.Methods)
	}
	if d.Field == "enc" || d.Field == "both" {
		sig["cenc"], sig["senc"] = sc.Cfg.C.Enc, sc.Cfg.S.Enc
		sig["ciphers"] = hsreal.CipherClass(sc.Cfg.C.Ciphers, sc.Cfg.S.Ciphers)
	}
	if sc.BName != "TOKEN" {
		sig["b_name"] = sc.BName
	}
	if sc.Alias != "" {
		// the alias-name sweep: the level pair is irrelevant to which NAME is reported
		sig = map[string]string{"spec": "Handshake", "inv": d.Inv, "class": d.Class, "alias": sc.Alias}
	}
	return sig
}

// runReal executes the configuration on two real endpoints; a run that hits the
// (short) deadline is repeated with a long one before it is believed.
func runReal(env *hsreal.Env, sc *scenario) *hsreal.Result {
	cfg := hsreal.Concretise(sc.Cfg, sc.BName)
	r := hsreal.Run(env, cfg, hsreal.Opts{Timeout: 1500 * time.Millisecond})
	if r.C.TimedOut || r.S.TimedOut || r.C.AppTimedOut || r.S.AppTimedOut {
		r = hsreal.Run(env, cfg, hsreal.Opts{Timeout: 15 * time.Second})
	}
	return r
}

type stats struct {
	mu       sync.Mutex
	conform  int64
	bySig    map[string]int
	denials  int64
	expFail  int64
	authRuns int64
	encOn    int64
}

func replay(c *core.Ctx, env *hsreal.Env, scs []*scenario, st *stats) {
	defer hsreal.QuietStdout()()
	core.ParallelFor(len(scs), 16, func(i int) {
		sc := scs[i]
		r := runReal(env, sc)
		key := cfgKey(sc.Cfg) + "/" + sc.BName
		c.Eval(key, true)
		d := compare(sc, r)
		st.mu.Lock()
		if !sc.Exp.OK {
			st.expFail++
			if hsreal.ObserveFull(r.C2S.In, r.S2C.In, 0).Denied {
				st.denials++
			}
		}
		if r.S.OK && r.S.Auth {
			st.authRuns++
		}
		if r.S.OK && r.S.StreamEnc {
			st.encOn++
		}
		st.mu.Unlock()
		if d == nil {
			st.mu.Lock()
			st.conform++
			st.mu.Unlock()
			return
		}
		// DESIGN §5 (ii): reproduce on an immediate second run
		r2 := runReal(env, sc)
		d2 := compare(sc, r2)
		if d2 == nil || d2.Inv != d.Inv || d2.Class != d.Class {
			c.Broken("non-reproducible difference on %s: %+v vs %+v", key, d, d2)
			return
		}
		sig := signature(sc, d)
		ss := fmt.Sprint(sig)
		st.mu.Lock()
		st.bySig[ss]++
		n := st.bySig[ss]
		st.mu.Unlock()
		if n > 1 { // one recorded example per signature
			return
		}
		c.Fail(core.Failure{Signature: sig,
			Detail:   fmt.Sprintf("%s/%s: %s  [client %+v | server %+v]", d.Inv, d.Class, d.Detail, sc.Cfg.C, sc.Cfg.S),
			Scenario: sc})
	})
}

func replayFile(c *core.Ctx, env *hsreal.Env) bool {
	if c.Replay == "" {
		return false
	}
	b, err := os.ReadFile(c.Replay)
	if err != nil {
		c.Broken("cannot read replay file: %v", err)
		return true
	}
	var rf struct {
		Scenario scenario `json:"scenario"`
	}
	if err := json.Unmarshal(b, &rf); err != nil || rf.Scenario.Kind != "C10" {
		c.Broken("not a C10 replay file")
		return true
	}
	st := &stats{bySig: map[string]int{}}
	replay(c, env, []*scenario{&rf.Scenario}, st)
	c.Add("traces_validated_against_impl", st.conform)
	return true
}

func run(c *core.Ctx) {
	c.Assume("both ends are cedar endpoints of this tree; methods are concretised as CLAIMTOBE (A), TOKEN / IDTOKENS (B), PASSWORD (declared, unimplemented), BOGUSAUTH (unknown); ciphers as AES and BLOWFISH (named, unimplemented)")
	c.Assume("where the statement is silent (encryption when nobody requires it; authentication when both ends are OPTIONAL) either outcome is accepted, provided both ends agree")
	c.Assume("a client-side failure that is the client's own decision (all offered methods failed) is not a bare close")
	env, err := hsreal.NewEnv(c.Tmp)
	if err != nil {
		c.Broken("cannot create TOKEN credentials: %v", err)
		return
	}
	if replayFile(c, env) {
		return
	}
	// 1. TLC: invariants over the whole product, every interleaving; one TLC process
	// per client authentication level (runs while generation and replay proceed)
	mcCfg := "MC_C10_quick.cfg"
	if c.Thorough() {
		mcCfg = "MC_C10.cfg"
	}
	var wg sync.WaitGroup
	for _, lv := range levels {
		wg.Add(1)
		go func(lv string) {
			defer wg.Done()
			kit.ModelCheck(c, "Gen_Handshake.tla", mcCfg, tlc.Options{Workers: 4, Timeout: 40 * time.Minute,
				Env: []string{"C10_CAUTH=" + lv, "C10_SAUTH=*", "C10_ENC=*", "C10_ROWS=" + filepath.Join(c.Tmp, "c10-rows.ndjson"),
					"JAVA_TOOL_OPTIONS=-Xmx4g"}})
		}(lv)
	}
	defer wg.Wait()

	// 2. TLC: expectations for the configurations to replay
	var scs []*scenario
	rowsFile := filepath.Join(c.Tmp, "c10-rows.ndjson")
	if c.Thorough() {
		_ = os.WriteFile(rowsFile, []byte("{}\n"), 0o644)
		var parts [][2]string
		for _, a := range levels {
			for _, b := range levels {
				parts = append(parts, [2]string{a, b})
			}
		}
		scs = generate(c, "Gen_C10_part.cfg", rowsFile, parts, "*")
		c.Set("exhaustive", true)
	} else {
		rows := pairwiseRows(c)
		var sb strings.Builder
		for _, r := range rows {
			b, _ := json.Marshal(r)
			sb.Write(b)
			sb.WriteByte('\n')
		}
		if err := os.WriteFile(rowsFile, []byte(sb.String()), 0o644); err != nil {
			c.Broken("cannot write rows: %v", err)
			return
		}
		c.Set("pairwise_rows", len(rows))
		var parts [][2]string
		for _, a := range levels {
			parts = append(parts, [2]string{a, "*"})
		}
		scs = generate(c, "Gen_C10_rows.cfg", rowsFile, parts, "*")
	}
	if len(scs) == 0 {
		c.Broken("no configuration was generated")
		return
	}
	c.Set("configurations", len(scs))
	for i := 0; i < len(scs) && i < 3; i++ {
		c.Sample(scs[i*len(scs)/3])
	}
	// 3. second concrete member of the usable method "B": IDTOKENS, on the
	// <<B>> / <<B>> shape with AES on both ends, all authentication level pairs
	var extra []*scenario
	for _, sc := range scs {
		if len(sc.Cfg.C.Methods) == 1 && sc.Cfg.C.Methods[0] == "B" && len(sc.Cfg.S.Methods) == 1 && sc.Cfg.S.Methods[0] == "B" &&
			sc.Cfg.C.Enc == "OPTIONAL" && sc.Cfg.S.Enc == "OPTIONAL" && sc.Cfg.Cmd &&
			len(sc.Cfg.C.Ciphers) == 1 && sc.Cfg.C.Ciphers[0] == "AES" && len(sc.Cfg.S.Ciphers) == 1 && sc.Cfg.S.Ciphers[0] == "AES" {
			cp := *sc
			cp.BName = "IDTOKENS"
			extra = append(extra, &cp)
		}
	}
	c.Set("idtokens_configurations", len(extra))
	// 4. alias names: TOKEN and IDTOKENS are two NAMES with one wire bit. One end
	// lists both spellings (either order), the other end one of them; the model
	// treats them as the distinct usable methods B and C, so both ends must report
	// the one the server's order selects. All 16 authentication level pairs,
	// encryption OPTIONAL, AES on both ends, both assignments of the spellings.
	aliasFile := filepath.Join(c.Tmp, "c10-alias-rows.ndjson")
	{
		var sb strings.Builder
		both := [][]string{{"B", "C"}, {"C", "B"}}
		one := [][]string{{"B"}, {"C"}}
		for _, bb := range both {
			for _, o := range one {
				for _, r := range []row{{CM: bb, SM: o}, {CM: o, SM: bb}} {
					r.CX, r.SX, r.Cmd = []string{"AES"}, []string{"AES"}, true
					b, _ := json.Marshal(r)
					sb.Write(b)
					sb.WriteByte('\n')
				}
			}
		}
		_ = os.WriteFile(aliasFile, []byte(sb.String()), 0o644)
	}
	var alias []*scenario
	for _, sc := range generate(c, "Gen_C10_rows.cfg", aliasFile, [][2]string{{"*", "*"}}, "OPTIONAL") {
		for _, bn := range []string{"TOKEN", "IDTOKENS"} {
			cp := *sc
			cp.BName = bn
			cp.Alias = "client-lists-both"
			if len(sc.Cfg.S.Methods) == 2 {
				cp.Alias = "server-lists-both"
			}
			alias = append(alias, &cp)
		}
	}
	c.Set("alias_name_configurations", len(alias))
	st := &stats{bySig: map[string]int{}}
	replay(c, env, scs, st)
	replay(c, env, extra, st)
	replay(c, env, alias, st)
	// code -> spec: a seeded sample of the configurations is run once more with
	// the hook events of stream / security collected, and every endpoint's life
	// cycle is validated by TLC against ConnLifecycle_Trace (HandshakeOK per
	// outcome, key before the post-auth ad, no cleartext after a REQUIRED handshake)
	{
		n := 500
		if c.Thorough() {
			n = 4000
		}
		rng := c.Rand("c10-lifecycle")
		var sample []*scenario
		for i := 0; i < n && len(scs) > 0; i++ {
			sample = append(sample, scs[rng.Intn(len(scs))])
		}
		col := &ltrace.Collector{}
		col.Install()
		st2 := &stats{bySig: map[string]int{}}
		replay(c, env, sample, st2)
		col.Uninstall()
		groups := col.Groups()
		c.Add("lifecycle_groups_recorded", int64(len(groups)))
		ltrace.Validate(c, groups, "c10-replay", func(e ltrace.Event) bool { return e["ev"] != "Dispatch" })
	}
	c.Add("traces_validated_against_impl", st.conform)
	c.Set("failing_signatures", len(st.bySig))
	c.Set("table_says_fail", st.expFail)
	c.Set("explicit_denials_seen_on_wire", st.denials)
	c.Set("handshakes_that_authenticated", st.authRuns)
	c.Set("handshakes_that_encrypted", st.encOn)
	c.Set("rule", "a case is one configuration (4 policy levels, 2 method lists, 2 cipher lists, command mode, concrete member of method B) run once on two real cedar endpoints over an in-memory link, followed by one application message each way; expectations (table Expected and the model's terminal states) are printed by TLC from Gen_Handshake; quick = all 256 level combinations x a seeded pairwise cover of the other five dimensions, thorough = the whole product; every case is non-trivial (a complete handshake attempt)")
}
