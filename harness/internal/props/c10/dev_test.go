package c10

import (
	"encoding/json"
	"fmt"
	"os"
	"path/filepath"
	"strings"
	"testing"

	"cedarverif/internal/core"
	"cedarverif/internal/hsreal"
)

func TestDev(t *testing.T) {
	tmp := t.TempDir()
	c := core.NewCtx("C10", "quick", 1, "/verif", tmp, "")
	env, err := hsreal.NewEnv(tmp)
	if err != nil {
		t.Fatal(err)
	}
	rows := pairwiseRows(c)
	fmt.Println("rows", len(rows))
	var sb strings.Builder
	for _, r := range rows {
		b, _ := json.Marshal(r)
		sb.Write(b)
		sb.WriteByte('\n')
	}
	rowsFile := filepath.Join(tmp, "rows.ndjson")
	os.WriteFile(rowsFile, []byte(sb.String()), 0o644)
	part := os.Getenv("DEV_PART")
	if part == "" {
		part = "OPTIONAL/REQUIRED"
	}
	ps := strings.Split(part, "/")
	scs := generate(c, "Gen_C10_rows.cfg", rowsFile, [][2]string{{ps[0], ps[1]}})
	fmt.Println("scenarios", len(scs), "broken", c.IsBroken())
	st := &stats{bySig: map[string]int{}}
	replay(c, env, scs, st)
	fmt.Println("conform", st.conform, "sigs", len(st.bySig))
	for k, v := range st.bySig {
		fmt.Println(v, k)
	}
	c.VerifDir = tmp // evidence / replays go to the temp dir
	c.Finish()
}
