// Package c12 is the driver of property C12.
package c12

import (
	"cedarverif/internal/chanreplay"
	"cedarverif/internal/core"
	"cedarverif/internal/kit"
	"cedarverif/internal/tlc"
)

func init() { core.Register("C12", run) }

func run(c *core.Ctx) {
	c.Assume("AES-GCM, SHA-256 of the Go standard library are correct; the reference frame codec (harness/internal/refcodec) is an independent reading of the documented format")
	c.Assume("model counters are mapped onto the real 32-bit range: a direction that starts at model counter s>0 starts at 2^32-1-(MaxCtr-s) through a reference-built crypto-state blob")
	if chanreplay.ReplayFile(c) {
		return
	}
	mc := "MC_C12_quick.cfg"
	if c.Thorough() {
		mc = "MC_C12.cfg"
	}
	if kit.ModelCheck(c, "SecureChannel.tla", mc, tlc.Options{Workers: 16, Timeout: 20 * 60e9}) == nil {
		return
	}
	if c.Thorough() {
		// the unbounded-counter argument: the sender half for one direction, any MaxCtr (TLAPS), cross-checked by TLC
		if kit.ModelCheck(c, "NonceInd.tla", "MC_NonceInd.cfg", tlc.Options{Workers: 4}) == nil {
			return
		}
		if kit.Prove(c, "NonceInd.tla") == 0 {
			return
		}
		c.Assume("NonceInd.tla is the projection of SecureChannel.tla's sender onto (sCtr, sIV, used) of one direction: receiver, wire and adversary never write these variables")
	}
	raws := kit.Generate(c, "Gen_SecureChannel.tla", "Gen_C12_quick.cfg", tlc.Options{})
	n := "num=150"
	if c.Thorough() {
		n = "num=3000"
	}
	raws = append(raws, kit.Generate(c, "Gen_SecureChannel.tla", "Gen_C12_free.cfg", tlc.Options{Simulate: n, Depth: 30, Seed: c.Seed})...)
	raws = kit.Dedupe(raws)
	scs := chanreplay.Parse(c, raws)
	if c.IsBroken() {
		return
	}
	c.Set("behaviours_distinct", len(scs))
	var jobs []chanreplay.Job
	plans := []int{0, 1}
	apis := []int{0, 2}
	if c.Thorough() {
		plans = []int{0, 1, 2, 3}
		apis = []int{0, 1, 2, 3}
	}
	for i, sc := range scs {
		if i < 2 {
			c.Sample(sc)
		}
		for _, sp := range plans {
			for _, api := range apis {
				for _, ref := range []bool{false, true} {
					if ref && sc.HasStep("Handoff") != nil {
						continue // hand-off expectations depend on the real sender's buffers
					}
					jobs = append(jobs, chanreplay.Job{sc, chanreplay.Variant{RecvAPI: api, SizePlan: sp, RefSend: ref, Salt: int(c.Seed%1000) + i}})
				}
			}
		}
	}
	var st chanreplay.Stats
	chanreplay.ReplayAll(c, jobs, &st)
	c.Set("frames_opened_by_reference_decryptor", st.FramesOpenedByRef)
	c.Set("reference_built_messages_accepted_by_real_receiver", st.RefFramesAccepted)
	c.Set("real_api_calls", st.RealCalls)
	if st.FramesOpenedByRef == 0 || st.RefFramesAccepted == 0 {
		c.Broken("vacuous run: no frame was opened by the reference decryptor / accepted from the reference sealer")
	}
	if c.Thorough() {
		chanreplay.ValidateRepoTestTraces(c, "./stream/", "./message/")
	} else {
		chanreplay.ValidateRepoTestTraces(c, "./stream/")
	}
	c.Set("rule", "behaviours = scripted histories (Gen_SecureChannel mode script: every combination of stream state, cleartext prefix 0..2 per direction, start counters {0, limit-2} per direction, 3 scripts) plus seeded TLC simulation of the free interleaving; each replayed with the real sender (every emitted frame opened by the reference decryptor with the IV/counter/AAD predicted by the model) and with the reference sealer feeding the real receiver; distinct = hash of behaviour+variant")
}
