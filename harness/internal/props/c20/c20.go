// Package c20 is the driver of property C20 (a CCB dial returns only the
// connection that presents its fresh connect id).
package c20

import (
	"sync"
	"time"

	"cedarverif/internal/ccbreplay"
	"cedarverif/internal/core"
	"cedarverif/internal/kit"
	"cedarverif/internal/tlc"
)

func init() { core.Register("C20", run) }

type genCfg struct {
	name, cfg string
	mode      string
	nb        int
}

// generous: TLC shares the machine with other checks
const tlcTimeout = 45 * time.Minute

func run(c *core.Ctx) {
	c.Assume("timing: the requester finishes processing what it has received within the settle delay (0.4 s; a difference is re-run with 4 s) and the 250 ms stagger timer does not fire while it is still busy with received data; observed scripts outside the generated set are judged by the invariants only")
	c.Assume("the scripted brokers are cedar's own server package (real security handshake, plaintext policy); only the CCB-level behaviour is scripted")
	c.Assume("a legitimate connection that was matched but never handed to the caller (lost a select race, second winner) may be left open: the statement is silent ('orphan' in CCBDial.tla)")
	mcs := []string{"MC_C20_std1.cfg", "MC_C20_std2_quick.cfg", "MC_C20_proxy1.cfg", "MC_C20_proxy2.cfg"}
	gens := []genCfg{
		{"standard1", "Gen_C20_std1_quick.cfg", "standard", 1},
		{"standard2", "Gen_C20_std2_quick.cfg", "standard", 2},
		{"proxy1", "Gen_C20_proxy1.cfg", "proxy", 1},
		{"proxy2", "Gen_C20_proxy2_quick.cfg", "proxy", 2},
	}
	if c.Thorough() {
		mcs = []string{"MC_C20_std1.cfg", "MC_C20_std2.cfg", "MC_C20_proxy1.cfg", "MC_C20_proxy2.cfg"}
		gens[0].cfg = "Gen_C20_std1.cfg"
		gens[1].cfg = "Gen_C20_std2.cfg"
		gens[3].cfg = "Gen_C20_proxy2.cfg"
	}
	// the TLC runs are independent of each other: run them side by side
	var wg sync.WaitGroup
	if c.Replay == "" {
		for _, m := range mcs {
			wg.Add(1)
			go func(m string) {
				defer wg.Done()
				kit.ModelCheck(c, "CCBDial.tla", m, tlc.Options{Workers: 4, Timeout: tlcTimeout})
			}(m)
		}
	}
	tabs := map[string]*ccbreplay.Table{}
	var mu sync.Mutex
	nBeh := 0
	for _, g := range gens {
		wg.Add(1)
		go func(g genCfg) {
			defer wg.Done()
			raws := kit.Generate(c, "Gen_CCBDial.tla", g.cfg, tlc.Options{Timeout: tlcTimeout})
			if raws == nil {
				return
			}
			t, err := ccbreplay.BuildTable(raws)
			if err != nil {
				c.Broken("bad behaviour JSON (%s): %v", g.cfg, err)
				return
			}
			mu.Lock()
			tabs[g.name] = t
			nBeh += len(raws)
			mu.Unlock()
			if len(raws) > 0 {
				c.Sample(string(raws[len(raws)/2]))
			}
		}(g)
	}
	wg.Wait()
	if c.IsBroken() {
		return
	}
	if err := ccbreplay.Prime(); err != nil {
		c.Broken("C20 fixture: %v", err)
		return
	}
	if c.Replay != "" {
		ccbreplay.ReplayFile(c, tabs)
		return
	}
	rng := c.Rand("c20")
	var jobs []ccbreplay.Job
	nScripts := 0
	// quick: every script with at most two environment steps, a sample of those with at most one
	// rogue connection and three environment steps, plus a seeded sample of the rest up to ~150 further dials per configuration;
	// thorough: every script of the one-broker configurations (small ones twice, with
	// different concrete members), a seeded sample of 4000 of each two-broker configuration
	for _, g := range gens {
		t := tabs[g.name]
		nScripts += len(t.Scripts)
		var core, small, rest [][]ccbreplay.Ev
		for _, sc := range t.Scripts {
			if len(sc) <= 4 {
				// launch, at most two environment steps, stop: always replayed, so that every
				// arrival / message kind is seen alone and directly before / after every other
				core = append(core, sc)
			} else if ccbreplay.Rogues(sc) <= 1 && len(sc) <= 5 {
				small = append(small, sc)
			} else {
				rest = append(rest, sc)
			}
		}
		rng.Shuffle(len(rest), func(i, j int) { rest[i], rest[j] = rest[j], rest[i] })
		rng.Shuffle(len(small), func(i, j int) { small[i], small[j] = small[j], small[i] })
		budget := 150
		if c.Thorough() {
			budget = 4000
			if g.nb == 1 {
				budget = len(small) + len(rest)
			}
		}
		pick := small
		if len(pick) > budget*2/3 && !c.Thorough() {
			pick = pick[:budget*2/3]
		}
		pick = append(append([][]ccbreplay.Ev{}, core...), pick...)
		budget += len(core)
		if n := budget - len(pick); n > 0 {
			if n > len(rest) {
				n = len(rest)
			}
			pick = append(append([][]ccbreplay.Ev{}, pick...), rest[:n]...)
		}
		for _, sc := range pick {
			p := ccbreplay.Params{Mode: g.mode, NB: g.nb, Salt: rng.Intn(1 << 20)}
			if g.mode == "proxy" && rng.Intn(3) == 0 {
				p.Mode = "nested"
			}
			if g.mode == "standard" && rng.Intn(5) == 0 {
				p.Down = true
			}
			jobs = append(jobs, ccbreplay.Job{Script: sc, P: p})
			if c.Thorough() && g.nb == 1 && ccbreplay.Rogues(sc) <= 1 && len(sc) <= 5 {
				p2 := p
				p2.Salt = rng.Intn(1 << 20)
				jobs = append(jobs, ccbreplay.Job{Script: sc, P: p2})
			}
		}
	}
	rng.Shuffle(len(jobs), func(i, j int) { jobs[i], jobs[j] = jobs[j], jobs[i] })
	var st ccbreplay.Stats
	ccbreplay.ReplayAll(c, tabs, jobs, 48, &st)
	c.Add("traces_validated_against_impl", st.Conform)
	c.Set("model_behaviours", nBeh)
	c.Set("environment_scripts", nScripts)
	c.Set("dials", len(jobs))
	c.Set("dials_returned_a_connection", st.Returned)
	c.Set("dials_ended_by_broker_failure_or_all_failed", st.Errors)
	c.Set("dials_cancelled_by_the_script", st.Cancelled)
	c.Set("dials_rerun_with_long_settle", st.Retried)
	c.Set("observed_scripts_outside_generated_set", st.UnknownScript)
	if st.Returned == 0 || st.Errors == 0 || st.Cancelled == 0 {
		c.Broken("C20 replay is vacuous: returned=%d failed=%d cancelled=%d", st.Returned, st.Errors, st.Cancelled)
	}
	if st.UnknownScript*20 > int64(len(jobs)) {
		c.Broken("C20: %d of %d dials produced scripts outside the generated set (timing assumptions do not hold on this machine)", st.UnknownScript, len(jobs))
	}
	c.Set("exhaustive", c.Thorough())
	c.Set("rule", "behaviours = every interleaving of environment steps (broker replies ok/fail/none; legitimate and rogue reverse connections: wrong id, empty id, id of an earlier request, id of the concurrent attempt, garbage, immediate close, stall; caller cancellation) with the requester's internal steps, for 1 and 2 brokers, standard and proxy mode, printed by TLC from Gen_CCBDial; behaviours with the same environment script form its set of admissible outcomes; each script is one REAL ccb.Dial against scripted brokers built on cedar's server package; abstract classes expand to concrete members by a seeded salt; quick replays every script with at most two environment steps and a seeded sample of the rest (about 150 further dials per configuration), thorough every script of the one-broker configurations and 4000 sampled scripts of each two-broker configuration; non-trivial = script with at least one environment step besides launch and stop")
}
