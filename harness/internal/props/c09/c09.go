// Package c09 is the driver of property C09 (private attributes are never
// serialised unless asked for, nor sent in the clear).
package c09

import (
	"sort"
	"sync"

	"cedarverif/internal/adwire"
	"cedarverif/internal/core"
	"cedarverif/internal/kit"
	"cedarverif/internal/tlc"
)

func init() { core.Register("C09", run) }

func run(c *core.Ctx) {
	c.Assume("private attribute = one of Capability, ChildClaimIds, ClaimId, ClaimIdList, ClaimIds, TransferKey or a name starting with _condor_priv, matched case-insensitively (HTCondor's ClassAdPrivateAttrs); the version cut-off for reserved-prefix attributes is 9.9.0")
	c.Assume("the statement never obliges a sender to send a private attribute: 'omitted' is always a conforming outcome for one; a public attribute must be sent when there is no whitelist or the whitelist names it (exact spelling); a whitelisted private name is not an opt-in")
	c.Assume("this API has no receiver for a type-less ad: after an ad sent with the NoTypes bit the harness, as the application, writes two empty strings so that the real receivers can be used")
	c.Assume("AES-GCM of the Go standard library is correct: a frame that the reference opener authenticates was protected, one that it does not was sent in the clear")
	if c.Replay != "" {
		sc, kind, ok := adwire.ReadReplay(c)
		if ok && (kind != "ClassAdWire" || !adwire.ReplayAdFile(c, sc)) {
			c.Broken("replay file of unknown kind %q", kind)
		}
		return
	}
	// the model check and the three parts of the table generator are independent TLC runs
	var wg sync.WaitGroup
	var mu sync.Mutex
	var rows []adwire.WireRow
	okMC := false
	wg.Add(1)
	go func() {
		defer wg.Done()
		okMC = kit.ModelCheck(c, "ClassAdWire.tla", "MC_C09.cfg", tlc.Options{Workers: 10}) != nil
	}()
	for _, part := range []string{"nokey", "enc", "keyedClear"} {
		wg.Add(1)
		go func(part string) {
			defer wg.Done()
			r := adwire.ParseWireRows(c, kit.Generate(c, "Gen_ClassAdWire.tla", "Gen_C09_"+part+".cfg", tlc.Options{}))
			mu.Lock()
			rows = append(rows, r...)
			mu.Unlock()
		}(part)
	}
	wg.Wait()
	if c.IsBroken() || !okMC {
		return
	}
	sort.SliceStable(rows, func(i, j int) bool { return rows[i].Cfg.St < rows[j].Cfg.St })
	table := 0
	for _, r := range rows {
		if len(r.Ad) == 1 {
			table++
		}
	}
	c.Set("decision_table_rows", table)
	scs := adwire.C09Scenarios(c, rows)
	n := 2000
	if c.Thorough() {
		n = 60000
	}
	scs = append(scs, adwire.C09RandomAds(c, rows, n)...)
	c.Set("ad_scenarios", len(scs))
	c.Sample(scs[len(scs)/5])
	c.Sample(scs[len(scs)/2])
	t := adwire.RunScenarios(c, scs)
	t.Publish(c, "")
	c.Set("exhaustive", true)
	c.Set("rule", "cases = every row of the decision table enumerated by TLC (9 attribute classes x 3 spellings x 64 option words x 3 whitelists x 3 peer versions x 3 stream states) as a single-attribute ad, plus per configuration and spelling one merged ad with every class (and the bare prefix and near-miss public names), each under the boundary version and one seeded version of its class and under PutClassAd where the configuration is the default, plus seeded mixed ads; each = real PutClassAdWithOptions on a recording stream, reference opening and decoding of every emitted byte, canary search, three real receivers; distinct = distinct scenario; non-trivial = the ad has an attribute")
}
