// Package c04 is the driver of property C04: the cleartext handshake is bound
// into the secure channel.
//
// TLC checks spec/Handshake.tla with an on-path relay (MC_C04*.cfg:
// EncOnImpliesSameTranscripts, TamperedMeansNoAppData) and, through
// Gen_Handshake.tla (mode c04), enumerates one behaviour per handshake shape x
// cleartext frame x relay action. Each behaviour is expanded into concrete
// relay actions (byte offsets, substitute values, split points, inserted
// frames) and run on two REAL cedar endpoints joined by the frame-aware relay
// of internal/wire; afterwards each endpoint whose handshake succeeded sends
// one application message and tries to receive one.
package c04

import (
	"crypto/sha256"
	"encoding/json"
	"fmt"
	"os"
	"sort"
	"sync"
	"time"

	"github.com/bbockelm/cedar/security"

	"cedarverif/internal/core"
	"cedarverif/internal/hsreal"
	"cedarverif/internal/kit"
	"cedarverif/internal/refcodec"
	"cedarverif/internal/tlc"
	"cedarverif/internal/wire"
)

func init() { core.Register("C04", run) }

type relayRec struct {
	Act  string `json:"act"` // none | Modify | InsertFrame | RemoveFrame | Split | Merge
	D    string `json:"d"`
	N    int    `json:"n"`
	K    string `json:"k"` // kind of the frame in the model (hello, srvad, offer, select, meth, kx, rreq, rrsp)
	Part string `json:"part"`
}

type proj struct {
	OK      bool `json:"ok"`
	Enc     bool `json:"enc"`
	Auth    bool `json:"auth"`
	Resumed bool `json:"resumed"`
}

// behaviour is one terminal state printed by Gen_Handshake in mode c04.
type behaviour struct {
	Shape   string   `json:"shape"`
	Methods []string `json:"methods"`
	CEnc    string   `json:"cenc"`
	SEnc    string   `json:"senc"`
	Relay   relayRec `json:"relay"`
	C       proj     `json:"c"`
	S       proj     `json:"s"`
	App     struct {
		C bool `json:"c"`
		S bool `json:"s"`
	} `json:"app"`
	Conf struct {
		C bool `json:"c"`
		S bool `json:"s"`
	} `json:"conf"`
	Nsent struct {
		C2S int `json:"c2s"`
		S2C int `json:"s2c"`
	} `json:"nsent"`
	Clear struct {
		C2S int `json:"c2s"`
		S2C int `json:"s2c"`
	} `json:"clear"`
}

func (b *behaviour) shapeName() string {
	switch b.Shape {
	case "resume":
		return "resumed"
	case "resume1":
		return "resumed-noreply"
	case "pre00", "pre10", "pre01", "pre11":
		return "prekeyed-" + b.Shape[3:]
	}
	if len(b.Methods) == 0 {
		return "noauth"
	}
	return map[string]string{"A": "CLAIMTOBE", "B": "TOKEN"}[b.Methods[0]]
}

// job is one concrete execution.
type job struct {
	Kind   string         `json:"kind"` // "C04"
	Shape  string         `json:"shape"`
	CEnc   string         `json:"cenc"` // encryption policy of the client / the server ("" = REQUIRED)
	SEnc   string         `json:"senc"`
	Relay  relayRec       `json:"relay"`
	Action wire.C04Action `json:"action"`
	// what the model's untouched run of this shape looks like
	ClearC2S int `json:"clear_c2s"`
	ClearS2C int `json:"clear_s2c"`
	NC2S     int `json:"n_c2s"`
	NS2C     int `json:"n_s2c"`
}

func (j *job) encPair() string {
	ce, se := j.CEnc, j.SEnc
	if ce == "" {
		ce = "REQUIRED"
	}
	if se == "" {
		se = "REQUIRED"
	}
	return ce + "/" + se
}

func shapeConfig(shape, cenc, senc string) hsreal.Config {
	var m []string
	switch shape {
	case "CLAIMTOBE", "resumed":
		m = []string{"CLAIMTOBE"}
	case "TOKEN":
		m = []string{"TOKEN"}
	}
	if cenc == "" {
		cenc = "REQUIRED"
	}
	if senc == "" {
		senc = "REQUIRED"
	}
	ce := hsreal.End{Auth: "PREFERRED", Enc: cenc, Methods: m, Ciphers: []string{"AES"}}
	se := hsreal.End{Auth: "PREFERRED", Enc: senc, Methods: m, Ciphers: []string{"AES"}}
	return hsreal.Config{C: ce, S: se, Cmd: true}
}

// execute runs one job on real endpoints. For the resumed shape a full
// handshake over an untouched link first establishes the session.
func execute(env *hsreal.Env, j *job, timeout time.Duration) (*hsreal.Result, string) {
	switch j.Shape {
	case "resumed-noreply":
		return hsreal.RunOneWayResume(env, hsreal.Opts{Relay: j.Action, Timeout: timeout}), ""
	case "prekeyed-00", "prekeyed-10", "prekeyed-01", "prekeyed-11":
		return hsreal.RunPrekeyed(int(j.Shape[9]-'0'), int(j.Shape[10]-'0'), hsreal.Opts{Relay: j.Action, Timeout: timeout}), ""
	}
	cfg := shapeConfig(j.Shape, j.CEnc, j.SEnc)
	if j.Shape != "resumed" {
		return hsreal.Run(env, cfg, hsreal.Opts{Relay: j.Action, Timeout: timeout}), ""
	}
	cache := security.NewSessionCache()
	first := hsreal.Run(env, cfg, hsreal.Opts{ClientCache: cache, KeepSession: true, NoApp: true, Timeout: 6 * time.Second})
	if !first.C.OK || !first.S.OK || first.C.Sid == "" {
		return nil, fmt.Sprintf("cannot establish the session to resume: client %q server %q", first.C.Err, first.S.Err)
	}
	defer security.GetSessionCache().Invalidate(first.S.Sid)
	return hsreal.Run(env, cfg, hsreal.Opts{Relay: j.Action, ClientCache: cache, Timeout: timeout}), ""
}

type diff struct {
	Inv    string
	Class  string
	Detail string
}

func digestOf(frames [][]byte, k int) [32]byte {
	if k == 0 {
		return [32]byte{} // unused direction: all-zero placeholder
	}
	h := sha256.New()
	for i := 0; i < k && i < len(frames); i++ {
		h.Write(frames[i])
	}
	var d [32]byte
	copy(d[:], h.Sum(nil))
	return d
}

// compareBaseline: the untouched run must be the model's untouched behaviour,
// and the first protected frame of each direction must open with the REFERENCE
// opener under the harness's own SHA-256 of exactly the cleartext frames.
func compareBaseline(j *job, r *hsreal.Result) *diff {
	C, S := &r.C, &r.S
	if !C.OK || !S.OK {
		return &diff{"HonestEncryptedTalks", "handshake-fails", fmt.Sprintf("untouched handshake fails: client %q server %q", C.Err, S.Err)}
	}
	if !C.StreamEnc || !S.StreamEnc || !C.Enc || !S.Enc {
		// (policy variants in which nobody requires encryption are only replayed when
		// the untouched handshake does end with encryption on - see run)
		return &diff{"HonestEncryptedTalks", "not-encrypted", fmt.Sprintf("policy %s, IsEncrypted client=%v server=%v, reported %v/%v", j.encPair(), C.StreamEnc, S.StreamEnc, C.Enc, S.Enc)}
	}
	if (j.Shape == "resumed" || j.Shape == "resumed-noreply") != (C.Resumed && S.Resumed) {
		return &diff{"HonestEncryptedTalks", "resumption", fmt.Sprintf("shape %s: SessionResumed client=%v server=%v", j.Shape, C.Resumed, S.Resumed)}
	}
	if !(C.AppAccepted && C.AppIntact && S.AppAccepted && S.AppIntact) {
		return &diff{"HonestEncryptedTalks", "app-exchange", fmt.Sprintf("application exchange on the untouched channel: client %v/%v (%s) server %v/%v (%s)", C.AppAccepted, C.AppIntact, C.AppErr, S.AppAccepted, S.AppIntact, S.AppErr)}
	}
	if len(r.C2S.In) != j.NC2S || len(r.S2C.In) != j.NS2C {
		return &diff{"FrameScript", "frame-count", fmt.Sprintf("frames on the wire c2s=%d s2c=%d, model c2s=%d s2c=%d", len(r.C2S.In), len(r.S2C.In), j.NC2S, j.NS2C)}
	}
	key := C.Key()
	if len(key) != 32 || string(key) != string(S.Key()) {
		return &diff{"HonestEncryptedTalks", "key", "the two ends do not report one 32-byte key"}
	}
	dc := digestOf(r.C2S.In, j.ClearC2S)
	ds := digestOf(r.S2C.In, j.ClearS2C)
	// s2c: sender = server
	fs, _ := refcodec.ParseFrames(r.S2C.In[j.ClearS2C])
	if len(fs) != 1 {
		return &diff{"FrameScript", "frame-parse", "cannot parse the first protected s2c frame"}
	}
	if _, err := refcodec.NewOpener(key, ds, dc).Open(fs[0]); err != nil {
		return &diff{"EncOnImpliesSameTranscripts", "digest-coverage-s2c", fmt.Sprintf("the first protected server frame does not open under SHA-256(first %d s2c frames) || SHA-256(first %d c2s frames): %v", j.ClearS2C, j.ClearC2S, err)}
	}
	fc, _ := refcodec.ParseFrames(r.C2S.In[j.ClearC2S])
	if len(fc) != 1 {
		return &diff{"FrameScript", "frame-parse", "cannot parse the first protected c2s frame"}
	}
	if _, err := refcodec.NewOpener(key, dc, ds).Open(fc[0]); err != nil {
		return &diff{"EncOnImpliesSameTranscripts", "digest-coverage-c2s", fmt.Sprintf("the first protected client frame does not open under SHA-256(first %d c2s frames) || SHA-256(first %d s2c frames): %v", j.ClearC2S, j.ClearS2C, err)}
	}
	return nil
}

// compareTampered: TamperedMeansNoAppData and EncOnImpliesSameTranscripts. Any
// abort, error or timeout is allowed.
func compareTampered(j *job, r *hsreal.Result) *diff {
	C, S := &r.C, &r.S
	sameC := !deviates(&r.C2S, j.ClearC2S)
	sameS := !deviates(&r.S2C, j.ClearS2C)
	if sameC && sameS {
		// Either the run ended before the action's frame was sent, or what the relay
		// changed lies entirely behind the receiver's cleartext phase (a copy of the
		// last cleartext frame inserted after it): for the receiver that is an
		// injection into the protected phase (property C02), not a change of the
		// negotiation - both ends saw byte-identical cleartext.
		return nil
	}
	sc, dc, _ := r.C2S.ClearDigests(j.ClearC2S)
	ss, ds, _ := r.S2C.ClearDigests(j.ClearS2C)
	shas := fmt.Sprintf("relay SHA-256 c2s sent %x delivered %x, s2c sent %x delivered %x", sc[:4], dc[:4], ss[:4], ds[:4])
	req := func(l string) bool { return l == "" || l == "REQUIRED" }
	for _, e := range []struct {
		who      string
		side     *hsreal.Side
		required bool
	}{{"client", C, req(j.CEnc)}, {"server", S, req(j.SEnc)}} {
		if !e.side.AppAccepted {
			continue
		}
		class := "app-accepted-" + e.who
		if !e.side.StreamEnc {
			if !e.required {
				continue // an end that does not require encryption may be talked down to cleartext: no protected frame, nothing bound
			}
			class += "-plaintext"
		}
		return &diff{"TamperedMeansNoAppData", class, fmt.Sprintf("cleartext transcripts differ (c2s same=%v, s2c same=%v) and the %s accepted an application message (client: ok=%v enc=%v accepted=%v; server: ok=%v enc=%v accepted=%v); %s",
			sameC, sameS, e.who, C.OK, C.StreamEnc, C.AppAccepted, S.OK, S.StreamEnc, S.AppAccepted, shas)}
	}
	if (j.Shape == "noauth" || j.Shape == "CLAIMTOBE" || j.Shape == "TOKEN") && C.OK && C.StreamEnc {
		// the client's handshake ends by accepting the protected post-auth ad
		return &diff{"EncOnImpliesSameTranscripts", "client-confirmed", fmt.Sprintf("the client's handshake ended with encryption on although the cleartext transcripts differ (c2s same=%v, s2c same=%v); %s", sameC, sameS, shas)}
	}
	return nil
}

// deviates reports whether the receiver of a direction can have consumed, in its
// cleartext phase, anything else than what the sender sent in ITS cleartext phase
// (the first k frames): the delivered byte stream differs from the sent cleartext
// inside that prefix, or ends short of it. An endpoint is deterministic in the
// bytes it reads, so while the delivered stream equals the sent one the receiver
// behaves as in the untouched run and leaves its cleartext phase at the same point.
func deviates(l *wire.C04DirLog, k int) bool {
	var sent, deliv []byte
	for i := 0; i < k && i < len(l.In); i++ {
		sent = append(sent, l.In[i]...)
	}
	for i := range l.Out {
		deliv = append(deliv, l.Out[i]...)
	}
	n := len(sent)
	if len(deliv) < n {
		return true
	}
	return string(sent) != string(deliv[:n])
}

func signature(j *job, d *diff) map[string]string {
	return map[string]string{"spec": "Handshake", "inv": d.Inv, "class": d.Class, "shape": j.Shape, "enc": j.encPair(),
		"act": j.Relay.Act, "part": j.Relay.Part, "frame": j.Relay.D + ":" + j.Relay.K}
}

// expand turns an abstract behaviour into concrete jobs. sizes are the wire
// sizes of the frames of the direction in the untouched run.
func expand(c *core.Ctx, b *behaviour, base *job, size int) []*job {
	mk := func(a wire.C04Action) *job {
		j := *base
		j.Relay = b.Relay
		a.Dir, a.Frame = b.Relay.D, b.Relay.N
		j.Action = a
		return &j
	}
	var out []*job
	xors := []byte{0x01, 0x80, 0xFF}
	switch b.Relay.Act {
	case "Modify":
		if b.Relay.Part == "hdr" {
			// byte 0 (the end flag, 1 in every handshake frame): every value the
			// receiver may accept (0..10), the first it rejects (11) and 255
			for v := 0; v <= 11; v++ {
				if v != 1 {
					out = append(out, mk(wire.C04Action{Kind: "modify", Offset: 0, Set: true, Value: byte(v)}))
				}
			}
			out = append(out, mk(wire.C04Action{Kind: "modify", Offset: 0, Set: true, Value: 255}))
			for off := 1; off < 5; off++ { // the length
				for _, x := range xors {
					out = append(out, mk(wire.C04Action{Kind: "modify", Offset: off, Xor: x}))
				}
			}
			return out
		}
		n := size - 5
		if n <= 0 {
			return nil
		}
		if c.Thorough() {
			for off := 0; off < n; off++ {
				for _, x := range xors {
					out = append(out, mk(wire.C04Action{Kind: "modify", Offset: 5 + off, Xor: x}))
				}
			}
			return out
		}
		rng := c.Rand(fmt.Sprintf("c04/%s/%s/%d", base.Shape, b.Relay.D, b.Relay.N))
		offs := map[int]bool{0: true, n - 1: true}
		for len(offs) < 24 && len(offs) < n {
			offs[rng.Intn(n)] = true
		}
		keys := make([]int, 0, len(offs))
		for o := range offs {
			keys = append(keys, o)
		}
		sort.Ints(keys)
		for _, o := range keys {
			out = append(out, mk(wire.C04Action{Kind: "modify", Offset: 5 + o, Xor: xors[rng.Intn(3)]}))
		}
	case "InsertFrame":
		for _, v := range []string{"empty", "dup", "junk"} {
			out = append(out, mk(wire.C04Action{Kind: "insert", Variant: v}))
		}
	case "RemoveFrame":
		out = append(out, mk(wire.C04Action{Kind: "remove"}))
	case "Split":
		n := size - 5
		pts := map[int]bool{0: true, 1: true, n / 2: true, n - 1: true, n: true}
		keys := make([]int, 0, len(pts))
		for p := range pts {
			if p >= 0 && p <= n {
				keys = append(keys, p)
			}
		}
		sort.Ints(keys)
		for _, p := range keys {
			out = append(out, mk(wire.C04Action{Kind: "split", SplitAt: p}))
		}
	case "Merge":
		out = append(out, mk(wire.C04Action{Kind: "merge"}))
	}
	return out
}

type stats struct {
	mu           sync.Mutex
	conform      int64
	aborted      int64 // tampered runs in which some endpoint failed / timed out (the allowed outcome)
	timeout      int64
	noReach      int64
	scriptBroken bool
	behind       int64 // the change lies behind the receiver's cleartext phase (equivalent to a protected-phase injection)
	bySig        map[string]int
}

func runJobs(c *core.Ctx, env *hsreal.Env, jobs []*job, st *stats) {
	defer hsreal.QuietStdout()()
	core.ParallelFor(len(jobs), 48, func(i int) {
		j := jobs[i]
		one := func() (*diff, *hsreal.Result, string) {
			to := 1500 * time.Millisecond
			if j.Relay.Act == "none" {
				to = 8 * time.Second
			}
			r, broke := execute(env, j, to)
			if broke == "" && j.Relay.Act != "none" && !r.Acted {
				// the deadline passed before the frame was even sent (loaded machine): once more, patiently
				r, broke = execute(env, j, 8*time.Second)
			}
			if broke != "" {
				return nil, nil, broke
			}
			if j.Relay.Act == "none" {
				return compareBaseline(j, r), r, ""
			}
			return compareTampered(j, r), r, ""
		}
		d, r, broke := one()
		if broke != "" {
			c.Broken("%s", broke)
			return
		}
		key, _ := json.Marshal(j)
		c.Eval(string(key), true)
		// Replaying a recorded violation: an endpoint that was pushed into reading
		// protected frames as cleartext decides on random ciphertext bytes, so the
		// recorded difference may need a few attempts to show again.
		for k := 0; d == nil && c.Replay != "" && k < 9; k++ {
			d, r, _ = one()
		}
		if d == nil {
			st.mu.Lock()
			st.conform++
			if j.Relay.Act != "none" {
				if !r.C.OK || !r.S.OK || r.C.AppErr != "" || r.S.AppErr != "" {
					st.aborted++
				}
				if r.C.TimedOut || r.S.TimedOut {
					st.timeout++
				}
				if !r.Acted {
					st.noReach++
				} else if !deviates(&r.C2S, j.ClearC2S) && !deviates(&r.S2C, j.ClearS2C) {
					st.behind++
				}
			}
			st.mu.Unlock()
			return
		}
		// DESIGN §5 (ii): the difference must be observed again at once. Outcomes
		// that hinge on random key material get up to five immediate re-runs.
		again := false
		for k := 0; k < 5 && !again; k++ {
			d2, _, _ := one()
			again = d2 != nil && d2.Inv == d.Inv && d2.Class == d.Class
		}
		if !again {
			c.Broken("non-reproducible difference on %s: %+v", key, d)
			return
		}
		sig := signature(j, d)
		ss := fmt.Sprint(sig)
		st.mu.Lock()
		if d.Inv == "FrameScript" || d.Inv == "HonestEncryptedTalks" {
			st.scriptBroken = true
		}
		st.bySig[ss]++
		n := st.bySig[ss]
		st.mu.Unlock()
		if n > 1 { // one recorded example per signature
			return
		}
		c.Fail(core.Failure{Signature: sig, Detail: fmt.Sprintf("%s/%s: %s [concrete action %+v]", d.Inv, d.Class, d.Detail, j.Action), Scenario: j})
	})
}

func replayFile(c *core.Ctx, env *hsreal.Env) bool {
	if c.Replay == "" {
		return false
	}
	b, err := os.ReadFile(c.Replay)
	if err != nil {
		c.Broken("cannot read replay file: %v", err)
		return true
	}
	var rf struct {
		Scenario job `json:"scenario"`
	}
	if err := json.Unmarshal(b, &rf); err != nil || rf.Scenario.Kind != "C04" {
		c.Broken("not a C04 replay file")
		return true
	}
	st := &stats{bySig: map[string]int{}}
	runJobs(c, env, []*job{&rf.Scenario}, st)
	c.Add("traces_validated_against_impl", st.conform)
	return true
}

func run(c *core.Ctx) {
	c.Assume("the property speaks of handshakes that END with encryption on: policies REQUIRED/REQUIRED, and OPTIONAL/OPTIONAL, PREFERRED/OPTIONAL with AES on both ends (cedar keys those too); an end that does not itself require encryption may be talked down to a cleartext session by the relay - that session has no protected frame and is outside the statement")
	c.Assume("EncOnImpliesSameTranscripts is evaluated for an end once it has accepted a protected frame (client: the post-auth ad; resumed sessions: the first application message); the server's handshake call returns before it has received any protected frame")
	c.Assume("resumption without a reply (ResumeResponse=false) is a legitimate peer behaviour that cedar's own client never shows: its client side is scripted on cedar's public stream / message API (real stream code on both ends), the server is the real ServerHandshake")
	c.Assume("SHA-256 / AES-GCM of the Go standard library are correct; the relay's transcripts and the reference opener (internal/refcodec) are independent of cedar's stream code")
	env, err := hsreal.NewEnv(c.Tmp)
	if err != nil {
		c.Broken("cannot create TOKEN credentials: %v", err)
		return
	}
	if replayFile(c, env) {
		return
	}
	mc := "MC_C04.cfg"
	if c.Thorough() {
		mc = "MC_C04_thorough.cfg"
	}
	var wg sync.WaitGroup
	wg.Add(1)
	go func() {
		defer wg.Done()
		kit.ModelCheck(c, "Handshake.tla", mc, tlc.Options{Workers: 16, Timeout: 15 * time.Minute})
	}()
	defer wg.Wait()

	raws := kit.Generate(c, "Gen_Handshake.tla", "Gen_C04.cfg", tlc.Options{})
	if c.IsBroken() {
		return
	}
	// distinct behaviours: (shape, encryption policy pair, relay action)
	wanted := func(shape, pair string) bool {
		switch pair {
		case "REQUIRED/REQUIRED":
			return true
		case "OPTIONAL/OPTIONAL", "PREFERRED/OPTIONAL":
			// nobody requires encryption, yet both list AES: cedar keys the stream anyway,
			// and the statement covers every handshake that ENDS with encryption on
			return shape == "CLAIMTOBE" || shape == "TOKEN" || (c.Thorough() && shape == "noauth")
		}
		return false
	}
	byKey := map[string]*behaviour{}
	var keys []string
	for _, r := range raws {
		var w struct {
			Scn behaviour `json:"scn"`
		}
		if err := json.Unmarshal(r, &w); err != nil {
			c.Broken("bad behaviour JSON from TLC: %v", err)
			return
		}
		b := w.Scn
		pair := b.CEnc + "/" + b.SEnc
		if b.Shape != "full" {
			pair = "REQUIRED/REQUIRED" // only the negotiating shape reads the policy
			b.CEnc, b.SEnc = "REQUIRED", "REQUIRED"
		}
		if !wanted(b.shapeName(), pair) {
			continue
		}
		if b.Relay.Act == "none" && !(b.C.OK && b.C.Enc) {
			continue // the branch of the model in which the ends choose not to encrypt
		}
		k := fmt.Sprintf("%s|%s|%+v", b.shapeName(), pair, b.Relay)
		if _, ok := byKey[k]; !ok {
			byKey[k] = &b
			keys = append(keys, k)
		}
	}
	sort.Strings(keys)
	vkey := func(b *behaviour) string { return b.shapeName() + "|" + b.CEnc + "/" + b.SEnc }
	bases := map[string]*job{}
	var variants []string
	for _, k := range keys {
		b := byKey[k]
		if b.Relay.Act != "none" {
			if (b.App.C && b.C.Enc) || (b.App.S && b.S.Enc) || b.Conf.C || b.Conf.S {
				c.Broken("model behaviour %s accepts protected data after a relay action", k)
				return
			}
			continue
		}
		if !(b.C.OK && b.S.OK && b.App.C && b.App.S && b.C.Enc && b.S.Enc) {
			c.Broken("model's untouched behaviour %s is not an encrypted conversation", k)
			return
		}
		bases[vkey(b)] = &job{Kind: "C04", Shape: b.shapeName(), CEnc: b.CEnc, SEnc: b.SEnc, Relay: b.Relay, Action: wire.C04Action{Kind: "none"},
			ClearC2S: b.Clear.C2S, ClearS2C: b.Clear.S2C, NC2S: b.Nsent.C2S, NS2C: b.Nsent.S2C}
		variants = append(variants, vkey(b))
	}
	if len(bases) < 13 {
		c.Broken("expected at least 13 handshake variants (4 handshake shapes, 2 policies x 2 authenticating shapes, resumption without reply, 4 pre-keyed prefix shapes) from the model, got %d", len(bases))
		return
	}
	st := &stats{bySig: map[string]int{}}
	// 1. untouched runs: conformance with the model's script and digest coverage by the reference opener
	sizes := map[string][2][]int{}
	var baseJobs []*job
	skipped := map[string]bool{}
	for _, name := range variants {
		r, broke := execute(env, bases[name], 8*time.Second)
		if broke != "" {
			c.Broken("%s", broke)
			return
		}
		if bases[name].encPair() != "REQUIRED/REQUIRED" && r.C.OK && r.S.OK && !r.C.StreamEnc && !r.S.StreamEnc {
			// allowed where nobody requires encryption: there is no protected frame to bind into
			c.Note("variant " + name + ": the untouched handshake ends without encryption; nothing to check")
			skipped[name] = true
			continue
		}
		baseJobs = append(baseJobs, bases[name])
		var sc, ss []int
		for _, f := range r.C2S.In {
			sc = append(sc, len(f))
		}
		for _, f := range r.S2C.In {
			ss = append(ss, len(f))
		}
		sizes[name] = [2][]int{sc, ss}
	}
	c.Set("handshake_variants", len(baseJobs))
	runJobs(c, env, baseJobs, st)
	if st.scriptBroken || c.IsBroken() {
		// the untouched handshake fails or its frame script no longer matches the
		// model: relay positions would be meaningless
		c.Add("traces_validated_against_impl", st.conform)
		return
	}
	// 2. tampered runs
	var jobs []*job
	abstract := 0
	for _, k := range keys {
		b := byKey[k]
		if b.Relay.Act == "none" || skipped[vkey(b)] || bases[vkey(b)] == nil {
			continue
		}
		base := bases[vkey(b)]
		if (b.Relay.D == "c2s" && b.Relay.N > base.ClearC2S) || (b.Relay.D == "s2c" && b.Relay.N > base.ClearS2C) {
			// a frame that is cleartext only in the model's branch where the ends choose not
			// to encrypt (post-auth ad, application message): protected on the real wire
			continue
		}
		abstract++
		sz := sizes[vkey(b)][0]
		if b.Relay.D == "s2c" {
			sz = sizes[vkey(b)][1]
		}
		if b.Relay.N < 1 || b.Relay.N > len(sz) {
			c.Broken("model frame %s:%d does not exist in the real %s handshake", b.Relay.D, b.Relay.N, vkey(b))
			return
		}
		jobs = append(jobs, expand(c, b, base, sz[b.Relay.N-1])...)
	}
	c.Set("abstract_behaviours", abstract+len(baseJobs))
	for i := 0; i < 3 && i < len(jobs); i++ {
		c.Sample(jobs[i*len(jobs)/3])
	}
	runJobs(c, env, jobs, st)
	c.Add("traces_validated_against_impl", st.conform)
	c.Set("tampered_runs", len(jobs))
	c.Set("tampered_runs_aborted_by_an_endpoint", st.aborted)
	c.Set("tampered_runs_ended_by_deadline", st.timeout)
	c.Set("tampered_runs_action_not_reached", st.noReach)
	c.Set("tampered_runs_change_behind_cleartext_phase", st.behind)
	c.Set("failing_signatures", len(st.bySig))
	if c.Thorough() {
		c.Set("exhaustive", true)
	}
	c.Set("rule", "a case is one real handshake of one shape (no authentication, CLAIMTOBE, TOKEN, resumed with reply, resumed without reply = scripted client on cedar streams against the real server, pre-keyed real streams with 0|1 cleartext messages each way) through the frame-aware relay with one concrete relay action (byte offset x substitute, inserted frame variant, removed frame, split point, merge), followed by one application message each way; abstract behaviours (shape x cleartext frame x action) are enumerated by TLC from Gen_Handshake mode c04; thorough = every payload byte offset of every cleartext frame x 3 substitutes, quick = end flag byte set to each of 0..11 and 255, each length byte x 3 substitutes, 24 seeded payload offsets per frame; policy variants: encryption REQUIRED/REQUIRED for all shapes, OPTIONAL/OPTIONAL and PREFERRED/OPTIONAL for the authenticating shapes (and no-authentication in thorough); every case is non-trivial")
}
