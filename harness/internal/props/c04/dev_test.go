package c04

import (
	"fmt"
	"os"
	"testing"

	"cedarverif/internal/core"
	"cedarverif/internal/hsreal"
	"cedarverif/internal/kit"
	"cedarverif/internal/tlc"
)

func TestDevBase(t *testing.T) {
	tmp := t.TempDir()
	env, _ := hsreal.NewEnv(tmp)
	for _, s := range []struct {
		n          string
		a, b, c, d int
	}{{"noauth", 1, 1, 2, 3}, {"CLAIMTOBE", 3, 4, 4, 6}, {"TOKEN", 4, 4, 5, 6}, {"resumed", 1, 1, 2, 2}} {
		j := &job{Kind: "C04", Shape: s.n, Relay: relayRec{Act: "none"}, ClearC2S: s.a, ClearS2C: s.b, NC2S: s.c, NS2C: s.d}
		j.Action.Kind = "none"
		r, broke := execute(env, j, 8e9)
		fmt.Println(s.n, broke)
		if r != nil {
			fmt.Printf("  C=%+v\n  S=%+v\n  order=%v c2s=%d s2c=%d\n", r.C, r.S, r.Order, len(r.C2S.In), len(r.S2C.In))
			fmt.Printf("  baseline diff: %+v\n", compareBaseline(j, r))
		}
	}
}

func TestDev(t *testing.T) {
	tmp := t.TempDir()
	tier := os.Getenv("DEV_TIER")
	if tier == "" {
		tier = "quick"
	}
	c := core.NewCtx("C04", tier, 1, "/verif", tmp, "")
	_ = kit.Dedupe
	_ = tlc.Options{}
	c.VerifDir = tmp
	run(c)
	c.Finish()
	b, _ := os.ReadFile(tmp + "/evidence/C04.json")
	fmt.Println(string(b))
}

func TestDevOne(t *testing.T) {
	tmp := t.TempDir()
	env, _ := hsreal.NewEnv(tmp)
	for _, s := range []struct {
		n          string
		a, b, c, d int
		dir        string
		frame, off int
		x          byte
	}{{"resumed", 1, 1, 2, 2, "c2s", 1, 43, 255}, {"CLAIMTOBE", 3, 4, 4, 6, "s2c", 1, 387, 128}} {
		j := &job{Kind: "C04", Shape: s.n, Relay: relayRec{Act: "Modify"}, ClearC2S: s.a, ClearS2C: s.b, NC2S: s.c, NS2C: s.d}
		j.Action = wireAct(s.dir, s.frame, s.off, s.x)
		r, broke := execute(env, j, 2e9)
		fmt.Println(s.n, broke)
		if r != nil {
			fmt.Printf("  C=%+v\n  S=%+v\n  order=%v c2s=%d s2c=%d\n", r.C, r.S, r.Order, len(r.C2S.In), len(r.S2C.In))
			var fr []byte
			if s.dir == "c2s" {
				fr = r.C2S.Out[s.frame-1]
			} else {
				fr = r.S2C.Out[s.frame-1]
			}
			lo := s.off - 40
			if lo < 0 {
				lo = 0
			}
			fmt.Printf("  around: %q\n", fr[lo:s.off+20])
		}
	}
}
