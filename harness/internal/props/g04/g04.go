// Package g04 is the driver of growth module G04: the SSL (TLS-over-CEDAR)
// authentication sub-protocol (security/ssl_auth.go), specified in
// spec/SSLShim.tla and bound to the real code by internal/sslreplay.
package g04

import (
	"encoding/json"
	"fmt"
	"path/filepath"
	"sync"
	"time"

	"cedarverif/internal/core"
	"cedarverif/internal/kit"
	"cedarverif/internal/sslreplay"
	"cedarverif/internal/tlc"
)

func init() { core.Register("G04", run) }

func run(c *core.Ctx) {
	c.Assume("crypto/tls and crypto/x509 of the Go standard library are correct; the TLS state machine is abstracted to its four TLS 1.2 flights / an alert, certificates to the classes good, wrong CA, wrong name, expired, not yet valid, none")
	c.Assume("a role that ends with an error drops (at least the sending direction of) its connection; a peer blocked in a read then ends too - the specification's Abort action, which the intended protocol never needs (NoStuck)")
	c.Assume("the SCITOKENS exchange that rides on the sub-protocol (exchangeSciToken) needs an OIDC issuer reachable over the network and is not executed; its server branch reuses confirmHandshakeCompletion, which is covered")
	cr := sslreplay.CredSet{}
	families := []string{"ecdsa"}
	if c.Thorough() || c.Replay != "" {
		families = append(families, "rsa")
	}
	for _, f := range families {
		x, err := sslreplay.MakeCreds(filepath.Join(c.Tmp, "g04-creds-"+f), f)
		if err != nil {
			c.Broken("cannot make run-time credentials: %v", err)
			return
		}
		cr[f] = x
	}
	reps := 1
	if c.Thorough() {
		reps = 3 // more interleavings of the two endpoints for the trace validation
	}
	if sslreplay.ReplayFile(c, cr) {
		return
	}
	mc := "MC_G04.cfg"
	var wg sync.WaitGroup
	var mcRes *tlc.Result
	var intended, today []json.RawMessage
	wg.Add(3)
	go func() { defer wg.Done(); mcRes = kit.ModelCheck(c, "SSLShim.tla", mc, tlc.Options{Workers: 4}) }()
	go func() { defer wg.Done(); intended = kit.Generate(c, "Gen_SSLShim.tla", "Gen_G04.cfg", tlc.Options{}) }()
	go func() {
		defer wg.Done()
		today = kit.Generate(c, "Gen_SSLShim.tla", "Gen_G04_today.cfg", tlc.Options{})
	}()
	wg.Wait()
	if mcRes == nil || c.IsBroken() {
		return
	}
	_, list, err := sslreplay.Parse(intended)
	if err != nil {
		c.Broken("bad behaviour JSON: %v", err)
		return
	}
	todayBy, _, err := sslreplay.Parse(today)
	if err != nil {
		c.Broken("bad behaviour JSON: %v", err)
		return
	}
	var jobs []sslreplay.Job
	for i, sc := range list {
		if i < 3 {
			c.Sample(sc)
		}
		cfg := sc.Cfg()
		td := todayBy[cfg.Key()]
		if td == nil {
			c.Broken("no today-behaviour for configuration %s", cfg.Key())
			return
		}
		vias := sslreplay.NameVias(cfg.Base.Name)
		if cfg.Cstyle != "cedar" {
			vias = vias[:1] // the server name is the (scripted) client's business
		}
		for _, fam := range families {
			for rep := 0; rep < reps; rep++ {
				for _, via := range vias {
					jobs = append(jobs, sslreplay.Job{Sc: sc, Today: td, V: sslreplay.Variant{NameVia: via, Level: "sub", Family: fam, Rep: rep}})
					if cfg.Cstyle == "cedar" && cfg.Sstyle == "cedar" {
						// the whole handshake, method list [SSL] and [SSL, CLAIMTOBE]. Where today's
						// model leaves a role behind (a silent end), the real endpoints are expected
						// to wait for each other: do not wait long for those.
						tf := td.Final()
						hang := 0
						if !((tf.C == "done" && tf.S == "done") || (tf.C == "failed" && tf.S == "failed")) {
							hang = 4000
						}
						for _, fb := range []bool{false, true} {
							jobs = append(jobs, sslreplay.Job{Sc: sc, Today: td, V: sslreplay.Variant{NameVia: via, Level: "full", Fallback: fb, HangMs: hang, Family: fam, Rep: rep}})
						}
					}
				}
			}
		}
	}
	rng := c.Rand("g04-order")
	rng.Shuffle(len(jobs), func(i, j int) { jobs[i], jobs[j] = jobs[j], jobs[i] })
	st := sslreplay.NewStats()
	t0 := time.Now()
	sslreplay.ReplayAll(c, cr, jobs, st)
	t1 := time.Now()
	if !c.IsBroken() && c.Failures() < sslreplay.MaxFailures {
		sslreplay.ValidateTraces(c, st)
	}
	c.Note(fmt.Sprintf("replay of %d runs: %.1fs; trace validation: %.1fs", len(jobs), t1.Sub(t0).Seconds(), time.Since(t1).Seconds()))
	sslreplay.Report(c, st)
	c.Set("exhaustive", true)
	c.Set("rule", "behaviours = one per configuration of SSLShim (certificate class x client trust anchors x server-name match, client certificate, unreadable credentials on either side, scripted faults; client and server each as the real cedar role or as a scripted HTCondor-style peer), enumerated by TLC from Gen_SSLShim; each is executed with real cedar endpoints for the cedar-style roles (PerformSSLHandshake directly, and the whole ClientHandshake/ServerHandshake with method lists [SSL] and [SSL,CLAIMTOBE]) over an in-memory connection with a message recorder; the abstract server-name class expands to its concrete sources (configured name, sinful alias, other name, address only); every recorded run is validated by TLC against SSLShim_Trace (one action per observed message); non-trivial = at least three messages were exchanged")
}
