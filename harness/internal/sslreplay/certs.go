package sslreplay

import (
	"crypto"
	"crypto/ecdsa"
	"crypto/elliptic"
	"crypto/rand"
	"crypto/rsa"
	"crypto/x509"
	"crypto/x509/pkix"
	"encoding/pem"
	"fmt"
	"math/big"
	"net"
	"os"
	"path/filepath"
	"time"
)

// Creds are the run-time generated credentials every scenario draws from: two
// throw-away CAs and, signed by them, server and client certificates of the
// classes the specification distinguishes (SSLShim.tla CertClasses).
type Creds struct {
	Dir string
	// CA files
	CA, OtherCA string
	// certificate class -> (cert file, key file)
	Cert map[string][2]string
}

// Certificate classes.
const (
	CertGood      = "good"      // signed by CA, SAN = ServerHost, valid now
	CertWrongCA   = "wrongca"   // signed by OtherCA (the client does not trust it)
	CertWrongName = "wrongname" // signed by CA, SAN = another host
	CertExpired   = "expired"   // signed by CA, NotAfter in the past
	CertNotYet    = "notyet"    // signed by CA, NotBefore in the future
	CertClient    = "client"    // signed by CA, a client identity
	CertClientBad = "clientbad" // signed by OtherCA, a client identity
	CertNone      = "none"      // no certificate configured
)

// ServerHost is the name the good certificate is issued for.
const (
	ServerHost = "server.g04.cedar.test"
	OtherHost  = "other.g04.cedar.test"
)

type ca struct {
	cert *x509.Certificate
	key  crypto.Signer
	der  []byte
	kind string
}

// newKey makes a key of the family: "ecdsa" (P-256) or "rsa" (2048 bits), which
// also decides the TLS cipher suites the handshakes negotiate (ECDHE_ECDSA / ECDHE_RSA).
func newKey(kind string) (crypto.Signer, error) {
	if kind == "rsa" {
		return rsa.GenerateKey(rand.Reader, 2048)
	}
	return ecdsa.GenerateKey(elliptic.P256(), rand.Reader)
}

func newCA(cn string, serial int64, kind string) (*ca, error) {
	k, err := newKey(kind)
	if err != nil {
		return nil, err
	}
	now := time.Now()
	tpl := &x509.Certificate{SerialNumber: big.NewInt(serial), Subject: pkix.Name{CommonName: cn},
		NotBefore: now.Add(-24 * time.Hour), NotAfter: now.Add(30 * 24 * time.Hour), IsCA: true, BasicConstraintsValid: true,
		KeyUsage: x509.KeyUsageCertSign | x509.KeyUsageDigitalSignature}
	der, err := x509.CreateCertificate(rand.Reader, tpl, tpl, k.Public(), k)
	if err != nil {
		return nil, err
	}
	c, err := x509.ParseCertificate(der)
	if err != nil {
		return nil, err
	}
	return &ca{cert: c, key: k, der: der, kind: kind}, nil
}

func writePEM(path, typ string, der []byte, mode os.FileMode) error {
	return os.WriteFile(path, pem.EncodeToMemory(&pem.Block{Type: typ, Bytes: der}), mode)
}

func (a *ca) issue(dir, name, host string, serial int64, notBefore, notAfter time.Time) ([2]string, error) {
	k, err := newKey(a.kind)
	if err != nil {
		return [2]string{}, err
	}
	tpl := &x509.Certificate{SerialNumber: big.NewInt(serial), Subject: pkix.Name{CommonName: host},
		NotBefore: notBefore, NotAfter: notAfter,
		KeyUsage:    x509.KeyUsageDigitalSignature | x509.KeyUsageKeyEncipherment,
		ExtKeyUsage: []x509.ExtKeyUsage{x509.ExtKeyUsageServerAuth, x509.ExtKeyUsageClientAuth},
		DNSNames:    []string{host}}
	if ip := net.ParseIP(host); ip != nil {
		tpl.DNSNames, tpl.IPAddresses = nil, []net.IP{ip}
	}
	der, err := x509.CreateCertificate(rand.Reader, tpl, a.cert, k.Public(), a.key)
	if err != nil {
		return [2]string{}, err
	}
	kder, err := x509.MarshalPKCS8PrivateKey(k)
	if err != nil {
		return [2]string{}, err
	}
	cf, kf := filepath.Join(dir, name+".pem"), filepath.Join(dir, name+".key")
	if err := writePEM(cf, "CERTIFICATE", der, 0o644); err != nil {
		return [2]string{}, err
	}
	if err := writePEM(kf, "PRIVATE KEY", kder, 0o600); err != nil {
		return [2]string{}, err
	}
	return [2]string{cf, kf}, nil
}

// MakeCreds writes all credentials of one key family ("ecdsa" | "rsa") below dir.
func MakeCreds(dir, kind string) (*Creds, error) {
	if err := os.MkdirAll(dir, 0o700); err != nil {
		return nil, err
	}
	ca1, err := newCA("cedarverif G04 test CA", 1, kind)
	if err != nil {
		return nil, err
	}
	ca2, err := newCA("cedarverif G04 OTHER CA", 2, kind)
	if err != nil {
		return nil, err
	}
	c := &Creds{Dir: dir, CA: filepath.Join(dir, "ca.pem"), OtherCA: filepath.Join(dir, "otherca.pem"), Cert: map[string][2]string{}}
	if err := writePEM(c.CA, "CERTIFICATE", ca1.der, 0o644); err != nil {
		return nil, err
	}
	if err := writePEM(c.OtherCA, "CERTIFICATE", ca2.der, 0o644); err != nil {
		return nil, err
	}
	now := time.Now()
	ok0, ok1 := now.Add(-time.Hour), now.Add(48*time.Hour)
	specs := []struct {
		class, host string
		by          *ca
		nb, na      time.Time
	}{
		{CertGood, ServerHost, ca1, ok0, ok1},
		{CertWrongCA, ServerHost, ca2, ok0, ok1},
		{CertWrongName, OtherHost, ca1, ok0, ok1},
		{CertExpired, ServerHost, ca1, now.Add(-48 * time.Hour), now.Add(-24 * time.Hour)},
		{CertNotYet, ServerHost, ca1, now.Add(24 * time.Hour), now.Add(48 * time.Hour)},
		{CertClient, "client.g04.cedar.test", ca1, ok0, ok1},
		{CertClientBad, "client.g04.cedar.test", ca2, ok0, ok1},
	}
	for i, s := range specs {
		f, err := s.by.issue(dir, s.class, s.host, int64(10+i), s.nb, s.na)
		if err != nil {
			return nil, fmt.Errorf("certificate %s: %w", s.class, err)
		}
		c.Cert[s.class] = f
	}
	return c, nil
}
