package sslreplay

import (
	"encoding/json"
	"fmt"
	"os"
	"sort"
	"strings"
	"sync"
	"sync/atomic"

	"cedarverif/internal/core"
	"cedarverif/internal/kit"
)

// Job is one concrete execution: the INTENDED behaviour of a configuration,
// the behaviour of the same configuration with today's known deviations
// switched on (nil if none was generated), and the concrete variant.
type Job struct {
	Sc    *Scenario `json:"sc"`
	Today *Scenario `json:"today,omitempty"`
	V     Variant   `json:"variant"`
}

// Known deviations of today's cedar roles (Bug members of SSLShim.tla). A
// difference from the intended protocol that is exactly the behaviour with
// these switched on is reported as a KNOWN observation, not as a violation.
const (
	DevServerNeverHolding = "ServerNeverHolding"
	DevSilentInitFailure  = "SilentInitFailure"
	DevIgnorePeerQuitting = "IgnorePeerQuitting"
)

var devText = map[string]string{
	DevServerNeverHolding: "two cedar endpoints cannot complete an SSL handshake: the cedar SERVER role never sets its own status to HOLDING (it reports the status the shim left behind, RECEIVING = 2, as a bare integer), so confirmHandshakeCompletion fails on both ends with \"expected both sides in HOLDING (4), got client: 4, server: 2\" after the status exchange and the whole TLS exchange have succeeded",
	DevSilentInitFailure:  "a cedar role whose SSL credentials cannot be read (createTLSConfig fails) returns BEFORE the initial status exchange and tells nobody: the peer is left waiting for a status that never comes (server broken: client and server wait for each other until a timeout; client broken: the next method-negotiation message is taken for the SSL status and the fallback method is lost)",
	DevIgnorePeerQuitting: "the shim's Read stores the peer's status but never looks at it: a peer that reports QUITTING / ERROR in a TLS round is not noticed (with no bytes in the record the role keeps waiting for more until the connection ends)",
}

// DevOf names the known deviation a configuration's today-behaviour stands for.
func DevOf(c *SpecCfg) string {
	switch {
	case c.Base.Broken != "none":
		return DevSilentInitFailure
	case c.Fault != "none":
		return DevIgnorePeerQuitting
	}
	return DevServerNeverHolding
}

// MaxFailures: ReplayAll stops scheduling runs once this many differences are confirmed.
const MaxFailures = 12

// Stats of a replay.
type Stats struct {
	mu        sync.Mutex
	Runs      int64
	Conform   int64
	Known     map[string]int64  // deviation -> runs that showed it
	KnownEx   map[string]string // deviation -> one failing trace, rendered
	Messages  int64
	ByPair    map[string]int64 // styles -> runs
	groupsOK  [][]map[string]any
	groupsDev [][]map[string]any
	jobsOK    []Job
	jobsDev   []Job
}

func NewStats() *Stats {
	return &Stats{Known: map[string]int64{}, KnownEx: map[string]string{}, ByPair: map[string]int64{}}
}

// TraceLines renders a run as the lines SSLShim_Trace consumes (without the Reset line).
func TraceLines(sc *Scenario, o *Obs) []map[string]any {
	c := sc.Cfg()
	lines := []map[string]any{{"ev": "cfg", "cfg": map[string]any{
		"base":   map[string]any{"srvCert": c.Base.SrvCert, "trust": c.Base.Trust, "name": c.Base.Name, "cliCert": c.Base.CliCert, "broken": c.Base.Broken},
		"cstyle": c.Cstyle, "sstyle": c.Sstyle, "fault": c.Fault}}}
	sent := map[string]int{}
	for _, e := range o.Events {
		if e.Ev == "send" {
			sent[e.Role]++
		}
	}
	// a role that gave up before its first message
	for _, role := range []string{"c", "s"} {
		if ro := o.Role[role]; ro.Real && ro.Class == "config" && sent[role] == 0 {
			lines = append(lines, map[string]any{"ev": "local", "role": role, "shape": "giveup", "st": "-", "data": "-"})
		}
	}
	for _, e := range o.Events {
		p := projOf(e)
		lines = append(lines, map[string]any{"ev": e.Ev, "role": e.Role, "shape": p.Shape, "st": p.St, "data": p.Data})
	}
	// a role that was cut loose while blocked in a read
	for _, role := range []string{"c", "s"} {
		if o.Role[role].Outcome == "aborted" {
			lines = append(lines, map[string]any{"ev": "local", "role": role, "shape": "abort", "st": "-", "data": "-"})
		}
	}
	lines = append(lines, map[string]any{"ev": "final", "c": o.Role["c"].Outcome, "s": o.Role["s"].Outcome, "keysAgree": o.KeysEqual})
	return lines
}

// RenderTrace prints the messages of a run, in order, for a report.
func RenderTrace(o *Obs) string {
	var parts []string
	for _, e := range o.Events {
		if e.Ev != "send" {
			continue
		}
		dir := "C->S"
		if e.Role == "s" {
			dir = "S->C"
		}
		m := e.Msg
		switch m.Shape {
		case "int":
			parts = append(parts, fmt.Sprintf("%s status(%d)", dir, m.Status))
		case "rec":
			parts = append(parts, fmt.Sprintf("%s status(%d)+len(%d)+%s", dir, m.Status, m.Len, DataClass(m.TLS, m.Len)))
		default:
			parts = append(parts, fmt.Sprintf("%s <%d bytes>", dir, m.Raw))
		}
	}
	return strings.Join(parts, "; ")
}

func hasScripted(sc *Scenario) bool { c := sc.Cfg(); return c.Cstyle != "cedar" || c.Sstyle != "cedar" }

// runJob executes a job and classifies it: nil, "" = conforms to the intended
// protocol; nil, dev = exactly today's known deviation dev; diff = anything else.
// CredSet holds the credential families by name.
type CredSet map[string]*Creds

func (cs CredSet) of(v Variant) *Creds {
	if c := cs[v.Family]; c != nil {
		return c
	}
	return cs["ecdsa"]
}

func runJob(cs CredSet, j Job) (o *Obs, d *Diff, dev string, used *Scenario) {
	cr := cs.of(j.V)
	o = cr.Run(j.Sc, j.V)
	if o.Broken != "" {
		return o, nil, "", j.Sc
	}
	d = Compare(j.Sc, j.V, o)
	if d == nil {
		return o, nil, "", j.Sc
	}
	if j.Today != nil {
		o2 := o
		if hasScripted(j.Sc) {
			// the scripted peer has to walk the other behaviour
			o2 = cr.Run(j.Today, j.V)
		}
		if o2.Broken == "" && Compare(j.Today, j.V, o2) == nil {
			return o2, nil, DevOf(j.Sc.Cfg()), j.Today
		}
	}
	return o, d, "", j.Sc
}

// ReplayAll runs the jobs in parallel, confirms every difference by an
// immediate second run and records failures, known observations and the
// traces for validation.
func ReplayAll(c *core.Ctx, cr CredSet, jobs []Job, st *Stats) {
	var nfail, skipped int64
	defer func() {
		if skipped > 0 {
			c.Note(fmt.Sprintf("stopped early: %d runs were not executed after %d differences had been confirmed", skipped, nfail))
		}
	}()
	core.ParallelFor(len(jobs), 16, func(i int) {
		j := jobs[i]
		// enough is enough: a tree on which run after run differs (or hangs until the
		// deadline) is reported with the first differences, not after hours
		if atomic.LoadInt64(&nfail) >= MaxFailures {
			atomic.AddInt64(&skipped, 1)
			return
		}
		o, d, dev, used := runJob(cr, j)
		if o.Broken != "" {
			c.Broken("G04 harness: %s (configuration %s)", o.Broken, j.Sc.Cfg().Key())
			return
		}
		key, _ := json.Marshal(struct {
			K string
			V Variant
		}{j.Sc.Cfg().Key(), Variant{NameVia: j.V.NameVia, Level: j.V.Level, Fallback: j.V.Fallback, Family: j.V.Family}})
		c.Eval(string(key), len(o.Events) > 2)
		st.mu.Lock()
		st.Runs++
		st.Messages += int64(len(o.Events))
		st.ByPair[j.Sc.Cfg().Cstyle+"/"+j.Sc.Cfg().Sstyle+"@"+j.V.Level]++
		st.mu.Unlock()
		if d != nil {
			o2, d2, _, _ := runJob(cr, j)
			if d2 == nil || d2.Field != d.Field || d2.Role != d.Role {
				c.Broken("G04: non-reproducible difference on %s %+v: %v vs %v (second run: %+v)", j.Sc.Cfg().Key(), j.V, d, d2, o2.Role)
				return
			}
			atomic.AddInt64(&nfail, 1)
			c.Fail(core.Failure{Signature: Signature(j.Sc, j.V, d), Detail: d.Error() + " | observed: " + RenderTrace(o),
				Scenario: map[string]any{"kind": "SSLShim", "job": j}})
			return
		}
		st.mu.Lock()
		defer st.mu.Unlock()
		if dev == "" {
			st.Conform++
			if j.V.Level == "sub" {
				st.groupsOK = append(st.groupsOK, TraceLines(used, o))
				st.jobsOK = append(st.jobsOK, j)
			}
			return
		}
		st.Known[dev]++
		if _, ok := st.KnownEx[dev]; !ok || (j.V.Level == "sub" && !hasScripted(j.Sc) && j.Sc.Cfg().Base.SrvCert == "good") {
			st.KnownEx[dev] = fmt.Sprintf("configuration %s level %s: %s => client %s (%s), server %s (%s)", j.Sc.Cfg().Key(), j.V.Level, RenderTrace(o),
				o.Role["c"].Outcome, o.Role["c"].Err, o.Role["s"].Outcome, o.Role["s"].Err)
		}
		if j.V.Level == "sub" {
			st.groupsDev = append(st.groupsDev, TraceLines(used, o))
			st.jobsDev = append(st.jobsDev, j)
		}
	})
}

// ValidateTraces has TLC validate the recorded runs: those that conformed to
// the intended protocol against SSLShim_Trace.cfg, those that showed a known
// deviation against SSLShim_Trace_today.cfg. A run TLC cannot explain is a failure.
func ValidateTraces(c *core.Ctx, st *Stats) {
	check := func(groups [][]map[string]any, jobs []Job, cfg, label string) {
		if len(groups) == 0 {
			return
		}
		acc, rej := kit.ValidateGroups(c, "SSLShim_Trace.tla", cfg, groups, label)
		c.Add("traces_validated_against_impl", int64(acc))
		c.Add("message_traces_accepted_by_tlc", int64(acc))
		c.Add("message_trace_lines", int64(nlines(groups)))
		for _, r := range rej {
			j := jobs[r.Group]
			g := groups[r.Group]
			line := g[min(r.Index, len(g)-1)]
			lb, _ := json.Marshal(line)
			c.Fail(core.Failure{
				Signature: map[string]string{"spec": "SSLShim", "class": "trace-rejected", "event": fmt.Sprint(line["ev"]), "role": fmt.Sprint(line["role"]),
					"styles": j.Sc.Cfg().Cstyle + "/" + j.Sc.Cfg().Sstyle, "model": label},
				Detail:   fmt.Sprintf("TLC cannot explain event #%d %s of the recorded run of configuration %s by any SSLShim action", r.Index, lb, j.Sc.Cfg().Key()),
				Scenario: map[string]any{"kind": "SSLShim", "job": j, "lines": g},
			})
		}
	}
	var wg sync.WaitGroup
	wg.Add(2)
	go func() { defer wg.Done(); check(st.groupsOK, st.jobsOK, "SSLShim_Trace.cfg", "g04-intended") }()
	go func() { defer wg.Done(); check(st.groupsDev, st.jobsDev, "SSLShim_Trace_today.cfg", "g04-today") }()
	wg.Wait()
}

func nlines(groups [][]map[string]any) int {
	n := 0
	for _, g := range groups {
		n += len(g) + 1
	}
	return n
}

// Report writes the known observations and coverage.
func Report(c *core.Ctx, st *Stats) {
	devs := make([]string, 0, len(st.Known))
	for d := range st.Known {
		devs = append(devs, d)
	}
	sort.Strings(devs)
	for _, d := range devs {
		msg := fmt.Sprintf("KNOWN observation G04/%s (%d runs; the real code behaves exactly as SSLShim.tla with Bug member %q): %s. Recorded: %s", d, st.Known[d], d, devText[d], st.KnownEx[d])
		c.Note(msg)
		fmt.Println(msg)
		c.Add("known_observation_"+d, st.Known[d])
	}
	c.Set("runs_by_styles_and_level", st.ByPair)
	c.Set("messages_observed", st.Messages)
	c.Set("runs_conforming_to_intended_protocol", st.Conform)
	var known int64
	for _, n := range st.Known {
		known += n
	}
	// behaviours whose execution agreed with the specification (intended, or with a known Bug member)
	c.Add("traces_validated_against_impl", st.Conform+known)
}

// ReplayFile re-runs one recorded failure.
func ReplayFile(c *core.Ctx, cr CredSet) bool {
	if c.Replay == "" {
		return false
	}
	b, err := os.ReadFile(c.Replay)
	if err != nil {
		c.Broken("cannot read replay file: %v", err)
		return true
	}
	var rf struct {
		Scenario struct {
			Kind string `json:"kind"`
			Job  Job    `json:"job"`
		} `json:"scenario"`
	}
	if err := json.Unmarshal(b, &rf); err != nil || rf.Scenario.Kind != "SSLShim" || rf.Scenario.Job.Sc == nil {
		c.Broken("not a G04 replay file")
		return true
	}
	st := NewStats()
	ReplayAll(c, cr, []Job{rf.Scenario.Job}, st)
	ValidateTraces(c, st)
	Report(c, st)
	return true
}
