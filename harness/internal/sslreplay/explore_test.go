package sslreplay

import (
	"fmt"
	"testing"
)

func TestExplore(t *testing.T) {
	cr, err := MakeCreds(t.TempDir())
	if err != nil {
		t.Fatal(err)
	}
	cfgs := []Config{
		{SrvCert: CertGood, CliCA: "ca", CliName: "config", CliCert: "none", SrvCA: "ca", Broken: "c"},
		{SrvCert: CertGood, CliCA: "ca", CliName: "config", CliCert: "none", SrvCA: "ca", Broken: "s"},
		{SrvCert: CertGood, CliCA: "ca", CliName: "config", CliCert: "none", SrvCA: "ca", Broken: "c", Fallback: true},
		{SrvCert: CertGood, CliCA: "ca", CliName: "config", CliCert: "none", SrvCA: "ca", Broken: "s", Fallback: true},
		{SrvCert: CertWrongCA, CliCA: "ca", CliName: "config", CliCert: "none", SrvCA: "ca", Fallback: true},
		{SrvCert: CertGood, CliCA: "ca", CliName: "config", CliCert: "none", SrvCA: "ca", Fallback: true},
	}
	Deadline = 5e9
	for _, cfg := range cfgs {
		for _, lv := range []string{"sub", "full"} {
			o := cr.RunPair(cfg, lv)
			fmt.Printf("\n=== %+v level=%s wall=%dms\n  cli: %s (%v) hang=%v\n  srv: %s (%v) hang=%v\n", cfg, lv, o.WallMs, ErrClass(o.CliErr), o.CliErr, o.CliHang, ErrClass(o.SrvErr), o.SrvErr, o.SrvHang)
			for _, m := range o.Msgs {
				fmt.Printf("   %s %s status=%d len=%d tls=%s raw=%d\n", m.Dir, m.Shape, m.Status, m.Len, m.TLS, m.Raw)
			}
		}
	}
}
