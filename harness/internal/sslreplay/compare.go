package sslreplay

import (
	"fmt"
	"strings"
)

// Diff is a conformance difference between a run and the behaviour it executed.
type Diff struct {
	Role   string // role the difference was seen on ("c" | "s" | "-")
	Field  string // abstract field: outcome | messages | keys | key-on-wire | stray | hang | method | panic
	Detail string
}

func (d *Diff) Error() string { return fmt.Sprintf("role %s: %s: %s", d.Role, d.Field, d.Detail) }

// sslSlice cuts the events of a full handshake down to the SSL sub-protocol:
// everything after the server's reply selecting SSL (one integer, bit 256).
func sslSlice(evs []Event) []Event {
	for i, e := range evs {
		if e.Ev == "send" && e.Role == "s" && e.Msg.Shape == "int" && e.Msg.Status == 256 {
			return evs[i+1:]
		}
	}
	return nil
}

func isPrefix(want, got []Proj) bool {
	if len(want) > len(got) {
		return false
	}
	for i := range want {
		if want[i] != got[i] {
			return false
		}
	}
	return true
}

// Compare checks what a run showed against the behaviour sc at the run's level.
// Only real roles are judged (a scripted role walks the behaviour by construction).
func Compare(sc *Scenario, v Variant, o *Obs) *Diff {
	fin := sc.Final()
	want := map[string]string{"c": fin.C, "s": fin.S}
	for _, role := range []string{"c", "s"} {
		if ro := o.Role[role]; ro.Real && ro.Class == "panic" {
			return &Diff{role, "panic", ro.Err}
		}
	}
	if v.Level == "full" {
		return compareFull(sc, v, o)
	}
	for _, role := range []string{"c", "s"} {
		ro := o.Role[role]
		if !ro.Real {
			continue
		}
		// what the role sent and received, in its own order
		wp, gp := sc.RoleProj(role, false), ObsProj(o.Events, role, false)
		if len(wp) != len(gp) || !isPrefix(wp, gp) {
			return &Diff{role, "messages", fmt.Sprintf("the role's messages were %s, the specification has %s", projString(gp), projString(wp))}
		}
		if ro.Outcome != want[role] {
			f := "outcome"
			if ro.Outcome == "hang" || want[role] == "hang" {
				f = "hang"
			}
			return &Diff{role, f, fmt.Sprintf("the role ended %q (%s), the specification has %q", ro.Outcome, ro.Err, want[role])}
		}
	}
	bothDone := o.Role["c"].Outcome == "done" && o.Role["s"].Outcome == "done"
	if bothDone {
		if o.KeysEqual != fin.KeysAgree {
			return &Diff{"-", "keys", fmt.Sprintf("both completed; session keys equal = %v (length %d), the specification has %v", o.KeysEqual, o.KeyLen, fin.KeysAgree)}
		}
		if o.KeyLen != 256 {
			return &Diff{"-", "keys", fmt.Sprintf("session key of %d bytes, AUTH_SSL_SESSION_KEY_LEN is 256", o.KeyLen)}
		}
		if o.KeyOnWire {
			return &Diff{"-", "key-on-wire", "the session key is legible on the connection"}
		}
		if o.Unread[0]+o.Unread[1] != fin.Stray {
			return &Diff{"-", "stray", fmt.Sprintf("%d + %d complete messages were never read, the specification has %d", o.Unread[0], o.Unread[1], fin.Stray)}
		}
	}
	return nil
}

// compareFull judges a whole ClientHandshake / ServerHandshake pair (both roles
// real) against the sub-protocol's behaviour: SSL is the negotiated method iff
// both roles of the behaviour complete; otherwise both ends fall back to the
// second method when there is one, and fail otherwise; nobody hangs. The
// messages of the SSL slice must start with the behaviour's.
func compareFull(sc *Scenario, v Variant, o *Obs) *Diff {
	fin := sc.Final()
	sslOK := fin.C == "done" && fin.S == "done"
	clean := sslOK || (fin.C == "failed" && fin.S == "failed") // every failure was announced in the protocol
	slice := sslSlice(o.Events)
	for _, role := range []string{"c", "s"} {
		ro := o.Role[role]
		wp, gp := sc.RoleProj(role, true), ObsProj(slice, role, true)
		if !isPrefix(wp, gp) {
			return &Diff{role, "messages", fmt.Sprintf("within a full handshake the role sent %s after SSL was selected, the specification's sub-protocol has %s", projString(gp), projString(wp))}
		}
		var wantOut, wantMethod string
		switch {
		case sslOK:
			wantOut, wantMethod = "done", "SSL"
		case !clean:
			// a role was left behind by the other's silent end: the specification does not
			// say how the enclosing method negotiation fares (anything but a success with SSL)
			if ro.Outcome == "done" && ro.Method == "SSL" {
				return &Diff{role, "method", "the handshake reports SSL although the sub-protocol cannot complete"}
			}
			continue
		case v.Fallback:
			wantOut, wantMethod = "done", "CLAIMTOBE"
		default:
			wantOut = "failed"
		}
		got := ro.Outcome
		if got == "aborted" {
			got = "failed"
		}
		if got != wantOut {
			f := "outcome"
			if got == "hang" {
				f = "hang"
			}
			return &Diff{role, f, fmt.Sprintf("the handshake ended %q (%s), expected %q", ro.Outcome, ro.Err, wantOut)}
		}
		if wantOut == "done" && (ro.Method != wantMethod || !ro.Authed) {
			return &Diff{role, "method", fmt.Sprintf("negotiated method %q authenticated=%v, expected %q", ro.Method, ro.Authed, wantMethod)}
		}
	}
	return nil
}

// Signature: abstract classes only.
func Signature(sc *Scenario, v Variant, d *Diff) map[string]string {
	c := sc.Cfg()
	sig := map[string]string{"spec": "SSLShim", "role": d.Role, "field": d.Field, "level": v.Level,
		"styles": c.Cstyle + "/" + c.Sstyle}
	switch {
	case c.Fault != "none":
		sig["config"] = "fault:" + c.Fault
	case c.Base.Broken != "none":
		sig["config"] = "broken:" + c.Base.Broken
	case sc.Trace[0].Valid:
		sig["config"] = "valid-chain:" + c.Base.SrvCert
	default:
		// which of the client's checks the chain fails
		var bad []string
		sc0 := c.Base.SrvCert
		issuer, subject := "ca", "host"
		if sc0 == "wrongca" {
			issuer = "other"
		}
		if sc0 == "wrongname" {
			subject = "otherhost"
		}
		switch {
		case sc0 == "none":
			bad = append(bad, "nocert")
		default:
			if issuer != c.Base.Trust {
				bad = append(bad, "ca")
			}
			if subject != c.Base.Name {
				bad = append(bad, "name")
			}
			if sc0 == "expired" || sc0 == "notyet" {
				bad = append(bad, "time")
			}
		}
		sig["config"] = "invalid-chain:" + strings.Join(bad, "+")
	}
	if v.Fallback {
		sig["fallback"] = "yes"
	}
	return sig
}
