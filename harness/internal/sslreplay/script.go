package sslreplay

import (
	"crypto/rand"
	"crypto/tls"
	"crypto/x509"
	"encoding/binary"
	"errors"
	"fmt"
	"io"
	"net"
	"os"
	"sync"
	"time"

	"cedarverif/internal/refcodec"
)

// engine is the byte pipe between a scripted role and its own crypto/tls
// state machine: every Write of the TLS engine is one chunk on out (Go's TLS
// flushes a handshake flight, an alert or an application-data write in one
// Write), every chunk put on in is served to its Reads.
type engine struct {
	in     chan []byte
	out    chan []byte
	closed chan struct{}
	once   sync.Once
	rbuf   []byte
}

func newEngine() *engine {
	return &engine{in: make(chan []byte, 16), out: make(chan []byte, 16), closed: make(chan struct{})}
}

func (e *engine) Read(p []byte) (int, error) {
	for len(e.rbuf) == 0 {
		select {
		case b := <-e.in:
			e.rbuf = b
		case <-e.closed:
			return 0, io.EOF
		}
	}
	n := copy(p, e.rbuf)
	e.rbuf = e.rbuf[n:]
	return n, nil
}

func (e *engine) Write(p []byte) (int, error) {
	select {
	case e.out <- append([]byte(nil), p...):
		return len(p), nil
	case <-e.closed:
		return 0, io.ErrClosedPipe
	}
}

func (e *engine) Close() error                       { e.once.Do(func() { close(e.closed) }); return nil }
func (e *engine) LocalAddr() net.Addr                { return &net.TCPAddr{IP: net.IPv4(127, 0, 0, 1)} }
func (e *engine) RemoteAddr() net.Addr               { return &net.TCPAddr{IP: net.IPv4(127, 0, 0, 1)} }
func (e *engine) SetDeadline(t time.Time) error      { return nil }
func (e *engine) SetReadDeadline(t time.Time) error  { return nil }
func (e *engine) SetWriteDeadline(t time.Time) error { return nil }

// scriptResult is what a scripted role reports.
type scriptResult struct {
	hsErr     error  // its TLS engine's verdict
	key       []byte // the session key it generated (server) or received (client)
	stoppedAt int    // index of the step of its projection it could not perform (-1: all done)
	stopErr   error
	broken    string // harness inconsistency (engine disagrees with the specification)
}

// tlsConfigFor builds the scripted role's crypto/tls configuration from the
// same files the real role would be given.
func (cr *Creds) tlsConfigFor(base Base, client bool) (*tls.Config, error) {
	c := &tls.Config{MinVersion: tls.VersionTLS12, MaxVersion: tls.VersionTLS12}
	if client {
		pool := x509.NewCertPool()
		if f := cr.caFile(base.Trust); f != "" {
			pem, err := os.ReadFile(f)
			if err != nil {
				return nil, err
			}
			pool.AppendCertsFromPEM(pem)
		}
		c.RootCAs = pool
		switch base.Name {
		case "host":
			c.ServerName = ServerHost
		case "otherhost":
			c.ServerName = OtherHost
		default:
			c.ServerName = "10.4.0.2" // an address: no certificate of ours carries an IP SAN
		}
		return c, nil
	}
	if f, ok := cr.Cert[base.SrvCert]; ok {
		crt, err := tls.LoadX509KeyPair(f[0], f[1])
		if err != nil {
			return nil, err
		}
		c.Certificates = []tls.Certificate{crt}
	}
	return c, nil
}

func encodeMsg(m *SpecMsg, data []byte) []byte {
	var body []byte
	st := make([]byte, 8)
	binary.BigEndian.PutUint64(st, uint64(int64(statusInt[m.Est])))
	body = append(body, st...)
	if m.Shape == "rec" {
		ln := make([]byte, 8)
		binary.BigEndian.PutUint64(ln, uint64(len(data)))
		body = append(body, ln...)
		body = append(body, data...)
	}
	return refcodec.Frame{End: 1, Body: body}.Encode()
}

// readMsg reads one CEDAR message (frames up to the end flag) and returns its payload.
func readMsg(conn net.Conn) ([]byte, error) {
	var payload []byte
	for {
		var h [5]byte
		if _, err := io.ReadFull(conn, h[:]); err != nil {
			return nil, err
		}
		n := int(binary.BigEndian.Uint32(h[1:5]))
		if n > refcodec.MaxFrame {
			return nil, fmt.Errorf("frame of %d bytes", n)
		}
		b := make([]byte, n)
		if _, err := io.ReadFull(conn, b); err != nil {
			return nil, err
		}
		payload = append(payload, b...)
		if h[0]&1 == 1 {
			return payload, nil
		}
	}
}

// runScript walks role's projection of the behaviour over conn.
func (cr *Creds) runScript(sc *Scenario, role string, conn net.Conn) *scriptResult {
	res := &scriptResult{stoppedAt: -1}
	cfg := sc.Cfg()
	client := role == "c"
	tcfg, err := cr.tlsConfigFor(cfg.Base, client)
	if err != nil {
		res.broken = "scripted role: " + err.Error()
		return res
	}
	eng := newEngine()
	defer eng.Close()
	writeKey := make(chan struct{})
	type engRes struct {
		err error
		key []byte
	}
	done := make(chan engRes, 1)
	go func() {
		var r engRes
		var tc *tls.Conn
		if client {
			tc = tls.Client(eng, tcfg)
		} else {
			tc = tls.Server(eng, tcfg)
		}
		r.err = tc.Handshake()
		if r.err == nil {
			if client {
				k := make([]byte, 256)
				if _, err := io.ReadFull(tc, k); err == nil {
					r.key = k
				}
			} else {
				select {
				case <-writeKey:
					k := make([]byte, 256)
					_, _ = rand.Read(k)
					if _, err := tc.Write(k); err == nil {
						r.key = k
					}
				case <-eng.closed:
				}
			}
		}
		done <- r
	}()
	step := 0
	for i := range sc.Trace {
		e := &sc.Trace[i]
		if e.Role != role || e.Msg == nil || (e.Ev != "send" && e.Ev != "recv") {
			continue
		}
		if e.Ev == "send" {
			var data []byte
			if e.Msg.Edata != "none" {
				if e.Msg.Edata == "key" {
					close(writeKey)
				}
				select {
				case data = <-eng.out:
				case <-time.After(Deadline):
					res.broken = fmt.Sprintf("scripted %s: its TLS engine produced nothing for %q", role, e.Msg.Edata)
					return res
				}
				if got := DataClass(classify(data), len(data)); got != e.Msg.Data {
					res.broken = fmt.Sprintf("scripted %s: its TLS engine produced %s where the specification has %s (%s)", role, got, e.Msg.Data, e.Msg.Edata)
					return res
				}
			}
			if _, err := conn.Write(encodeMsg(e.Msg, data)); err != nil {
				res.stoppedAt, res.stopErr = step, err
				break
			}
		} else {
			p, err := readMsg(conn)
			if err != nil {
				res.stoppedAt, res.stopErr = step, err
				break
			}
			if len(p) >= 16 {
				if l := int(int64(binary.BigEndian.Uint64(p[8:16]))); l > 0 && l == len(p)-16 {
					eng.in <- append([]byte(nil), p[16:]...)
				}
			}
		}
		step++
	}
	// the role's script is over: nothing more will come from it
	if hc, ok := conn.(halfCloser); ok {
		hc.CloseWrite()
	}
	want := sc.Final().C
	if !client {
		want = sc.Final().S
	}
	if res.stoppedAt >= 0 || want != "done" {
		eng.Close() // the engine is abandoned wherever it stands
	}
	select {
	case r := <-done:
		res.hsErr, res.key = r.err, r.key
	case <-time.After(Deadline):
		eng.Close()
		r := <-done
		res.hsErr, res.key = r.err, r.key
		if res.hsErr == nil {
			res.hsErr = errors.New("the engine did not finish")
		}
	}
	return res
}
