package sslreplay

import (
	"encoding/binary"
	"net"
	"sync"
)

// Msg is one CEDAR message seen on the wire between the two endpoints, in the
// global order in which it was handed to the connection.
type Msg struct {
	Dir    string `json:"dir"`           // "c2s" | "s2c"
	Shape  string `json:"shape"`         // "int" (one integer) | "rec" (status + length + bytes) | "other"
	Status int    `json:"status"`        // first integer
	Len    int    `json:"len"`           // announced length (shape rec)
	Data   []byte `json:"-"`             // the bytes (shape rec)
	TLS    string `json:"tls,omitempty"` // content class of the bytes (see classify)
	Raw    int    `json:"raw"`           // payload size of the whole message
	Frames int    `json:"frames"`
}

// Recorder reassembles the CEDAR messages written in both directions of one
// connection and keeps them in one global order. A chunk is recorded BEFORE
// it is handed to the connection, so a reply can never be recorded ahead of
// the message it answers.
type Recorder struct {
	mu   sync.Mutex
	buf  [2][]byte // unparsed bytes per direction
	part [2][]byte // payload of the unfinished message per direction
	nfr  [2]int
	msgs []Msg
	// consumption: wire offset at which each message of a direction ends, bytes
	// the receiver has read so far, messages it has consumed completely
	off  [2]int
	ends [2][]int
	idx  [2][]int // index into msgs
	got  [2]int
	nrcv [2]int
	evs  []Event
}

// Event is one observed step of the connection: a role handed a complete
// message to the connection ("send"), or consumed one completely ("recv").
type Event struct {
	Ev   string `json:"ev"`
	Role string `json:"role"` // "c" | "s"
	Msg  Msg    `json:"msg"`
}

func (r *Recorder) add(dir int, p []byte) {
	r.mu.Lock()
	defer r.mu.Unlock()
	r.buf[dir] = append(r.buf[dir], p...)
	for {
		b := r.buf[dir]
		if len(b) < 5 {
			return
		}
		n := int(binary.BigEndian.Uint32(b[1:5]))
		if len(b) < 5+n {
			return
		}
		r.part[dir] = append(r.part[dir], b[5:5+n]...)
		r.nfr[dir]++
		end := b[0]&1 == 1
		r.buf[dir] = append([]byte(nil), b[5+n:]...)
		r.off[dir] += 5 + n
		if end {
			m := decode(dir, r.part[dir], r.nfr[dir])
			r.msgs = append(r.msgs, m)
			r.ends[dir] = append(r.ends[dir], r.off[dir])
			r.idx[dir] = append(r.idx[dir], len(r.msgs)-1)
			r.evs = append(r.evs, Event{Ev: "send", Role: [2]string{"c", "s"}[dir], Msg: m})
			r.part[dir], r.nfr[dir] = nil, 0
		}
	}
}

func decode(dir int, p []byte, frames int) Msg {
	m := Msg{Dir: [2]string{"c2s", "s2c"}[dir], Shape: "other", Raw: len(p), Frames: frames}
	if len(p) >= 8 {
		m.Status = int(int64(binary.BigEndian.Uint64(p[:8])))
	}
	switch {
	case len(p) == 8:
		m.Shape = "int"
	case len(p) >= 16:
		l := int(int64(binary.BigEndian.Uint64(p[8:16])))
		if l >= 0 && l == len(p)-16 {
			m.Shape, m.Len, m.Data = "rec", l, append([]byte(nil), p[16:]...)
			m.TLS = classify(m.Data)
		}
	}
	return m
}

// classify names the TLS content of a record's bytes from the (cleartext) TLS
// record headers: hs = handshake records, ccs = change-cipher-spec, alert,
// app = application data; several joined by '+'; "" for no bytes.
func classify(b []byte) string {
	out := ""
	last := ""
	for len(b) >= 5 {
		var k string
		switch b[0] {
		case 20:
			k = "ccs"
		case 21:
			k = "alert"
		case 22:
			k = "hs"
		case 23:
			k = "app"
		default:
			return out + "?"
		}
		n := int(b[3])<<8 | int(b[4])
		if len(b) < 5+n {
			return out + "?"
		}
		b = b[5+n:]
		if k != last {
			if out != "" {
				out += "+"
			}
			out += k
			last = k
		}
	}
	if len(b) != 0 {
		return out + "?"
	}
	return out
}

// consumed notes that the receiver of direction dir has read n more bytes.
func (r *Recorder) consumed(dir, n int) {
	r.mu.Lock()
	defer r.mu.Unlock()
	r.got[dir] += n
	for r.nrcv[dir] < len(r.ends[dir]) && r.ends[dir][r.nrcv[dir]] <= r.got[dir] {
		m := r.msgs[r.idx[dir][r.nrcv[dir]]]
		r.nrcv[dir]++
		r.evs = append(r.evs, Event{Ev: "recv", Role: [2]string{"s", "c"}[dir], Msg: m})
	}
}

// Events returns the send / recv events in the order they were observed.
func (r *Recorder) Events() []Event {
	r.mu.Lock()
	defer r.mu.Unlock()
	return append([]Event(nil), r.evs...)
}

// Unread returns how many complete messages of each direction were never consumed.
func (r *Recorder) Unread() (c2s, s2c int) {
	r.mu.Lock()
	defer r.mu.Unlock()
	return len(r.ends[0]) - r.nrcv[0], len(r.ends[1]) - r.nrcv[1]
}

// Messages returns what was recorded so far.
func (r *Recorder) Messages() []Msg {
	r.mu.Lock()
	defer r.mu.Unlock()
	return append([]Msg(nil), r.msgs...)
}

// Pending reports bytes that do not (yet) form a complete message.
func (r *Recorder) Pending() int {
	r.mu.Lock()
	defer r.mu.Unlock()
	return len(r.buf[0]) + len(r.buf[1]) + len(r.part[0]) + len(r.part[1])
}

type tapConn struct {
	net.Conn
	rec *Recorder
	dir int
}

func (t *tapConn) Write(p []byte) (int, error) {
	t.rec.add(t.dir, p)
	return t.Conn.Write(p)
}

func (t *tapConn) Read(p []byte) (int, error) {
	n, err := t.Conn.Read(p)
	if n > 0 {
		t.rec.consumed(1-t.dir, n)
	}
	return n, err
}

// Tap wraps the two ends of a connection; dir 0 = the client's writes.
func Tap(client, server net.Conn) (net.Conn, net.Conn, *Recorder) {
	r := &Recorder{}
	return &tapConn{client, r, 0}, &tapConn{server, r, 1}, r
}
