// Package sslreplay binds spec/SSLShim.tla (growth module G04, the SSL /
// TLS-over-CEDAR authentication sub-protocol) to the real code.
//
// spec -> code: every behaviour printed by Gen_SSLShim (one configuration of
// certificates, trust anchors, server name, credentials, role styles and
// scripted faults) is executed: a role of style "cedar" is the REAL code
// (security.NewSSLAuthenticator(...).PerformSSLHandshake, or the whole
// Authenticator.ClientHandshake / ServerHandshake with method list [SSL]), a
// role of style "htcondor" is a scripted peer that walks the role's projection
// of the behaviour with a crypto/tls engine of its own. A recorder on the
// in-memory connection reassembles every CEDAR message in both directions;
// each real role's sequence of sent and received messages (shape, status
// class, TLS content class), how it returned, and the session keys are
// compared with the specification's.
//
// code -> spec: the recorded global event sequences are validated by TLC
// against SSLShim_Trace.tla, one action per observed message.
package sslreplay

import (
	"encoding/json"
	"fmt"
	"strings"
)

// SpecMsg is the projection of a message in a generated behaviour.
type SpecMsg struct {
	Shape string `json:"shape"` // int | rec | abort | giveup
	St    string `json:"st"`    // status class: OK PROG QUITTING HOLDING ERROR
	Data  string `json:"data"`  // none | flight | alert | app
	Est   string `json:"est"`   // exact status name
	Edata string `json:"edata"` // exact content: hello shello cfin sfin alert key none
}

type Base struct {
	SrvCert string `json:"srvCert"`
	Trust   string `json:"trust"`
	Name    string `json:"name"`
	CliCert string `json:"cliCert"`
	Broken  string `json:"broken"`
}

type SpecCfg struct {
	Base   Base   `json:"base"`
	Cstyle string `json:"cstyle"`
	Sstyle string `json:"sstyle"`
	Fault  string `json:"fault"`
}

// SpecEvent is one line of a generated behaviour.
type SpecEvent struct {
	Ev   string   `json:"ev"` // cfg | send | recv | local | final
	Role string   `json:"role,omitempty"`
	Msg  *SpecMsg `json:"msg,omitempty"`
	// cfg
	Cfg   *SpecCfg `json:"cfg,omitempty"`
	Valid bool     `json:"valid,omitempty"`
	// final
	C         string            `json:"c,omitempty"`
	S         string            `json:"s,omitempty"`
	Own       map[string]string `json:"own,omitempty"`
	View      map[string]string `json:"view,omitempty"`
	KeysAgree bool              `json:"keysAgree,omitempty"`
	Stray     int               `json:"stray,omitempty"`
}

type Scenario struct {
	Trace []SpecEvent `json:"trace"`
}

func (sc *Scenario) Cfg() *SpecCfg { return sc.Trace[0].Cfg }
func (sc *Scenario) Final() *SpecEvent {
	return &sc.Trace[len(sc.Trace)-1]
}

func (sc *Scenario) wellFormed() bool {
	return len(sc.Trace) >= 2 && sc.Trace[0].Ev == "cfg" && sc.Trace[0].Cfg != nil && sc.Final().Ev == "final"
}

// Key identifies the configuration.
func (c *SpecCfg) Key() string {
	return fmt.Sprintf("%s/%s/%s/%s/%s/%s/%s/%s", c.Base.SrvCert, c.Base.Trust, c.Base.Name, c.Base.CliCert, c.Base.Broken, c.Cstyle, c.Sstyle, c.Fault)
}

// Proj is one step of a role as an observer sees it.
type Proj struct {
	Ev    string `json:"ev"`
	Shape string `json:"shape"`
	St    string `json:"st"`
	Data  string `json:"data"`
}

func (p Proj) String() string {
	if p.Ev == "local" {
		return p.Shape
	}
	if p.Shape == "int" {
		return fmt.Sprintf("%s int(%s)", p.Ev, p.St)
	}
	return fmt.Sprintf("%s rec(%s,%s)", p.Ev, p.St, p.Data)
}

func projString(ps []Proj) string {
	var s []string
	for _, p := range ps {
		s = append(s, p.String())
	}
	return "[" + strings.Join(s, "; ") + "]"
}

// RoleProj is the role's projection of the behaviour: its sends and receives.
func (sc *Scenario) RoleProj(role string, sendsOnly bool) []Proj {
	var out []Proj
	for _, e := range sc.Trace {
		if e.Role != role || e.Msg == nil || (e.Ev != "send" && e.Ev != "recv") {
			continue
		}
		if sendsOnly && e.Ev != "send" {
			continue
		}
		out = append(out, Proj{e.Ev, e.Msg.Shape, e.Msg.St, e.Msg.Data})
	}
	return out
}

// StatusClass maps a status integer on the wire to the specification's class.
func StatusClass(st int) string {
	switch st {
	case 0:
		return "OK"
	case 1, 2:
		return "PROG"
	case 3:
		return "QUITTING"
	case 4:
		return "HOLDING"
	case -1:
		return "ERROR"
	}
	return fmt.Sprintf("?%d", st)
}

var statusInt = map[string]int{"OK": 0, "SENDING": 1, "RECEIVING": 2, "QUITTING": 3, "HOLDING": 4, "ERROR": -1}

// DataClass maps the TLS content of a record's bytes to the specification's class.
func DataClass(tls string, n int) string {
	switch {
	case n == 0:
		return "none"
	case strings.Contains(tls, "?"):
		return "garbage"
	case strings.Contains(tls, "alert"):
		return "alert"
	case tls == "app":
		return "app"
	case strings.Contains(tls, "app"):
		return "garbage"
	}
	return "flight"
}

func projOf(e Event) Proj {
	m := e.Msg
	switch m.Shape {
	case "int":
		return Proj{e.Ev, "int", StatusClass(m.Status), "none"}
	case "rec":
		return Proj{e.Ev, "rec", StatusClass(m.Status), DataClass(m.TLS, m.Len)}
	}
	return Proj{e.Ev, "other", "?", "?"}
}

// ObsProj is the observed projection of a role.
func ObsProj(evs []Event, role string, sendsOnly bool) []Proj {
	var out []Proj
	for _, e := range evs {
		if e.Role != role || (sendsOnly && e.Ev != "send") {
			continue
		}
		out = append(out, projOf(e))
	}
	return out
}

// Parse decodes the behaviours printed by TLC, indexed by configuration.
func Parse(raws []json.RawMessage) (map[string]*Scenario, []*Scenario, error) {
	byKey := map[string]*Scenario{}
	var list []*Scenario
	for _, r := range raws {
		var sc Scenario
		if err := json.Unmarshal(r, &sc); err != nil {
			return nil, nil, err
		}
		if !sc.wellFormed() {
			return nil, nil, fmt.Errorf("malformed behaviour: %s", string(r))
		}
		k := sc.Cfg().Key()
		if _, dup := byKey[k]; dup {
			return nil, nil, fmt.Errorf("two behaviours for configuration %s", k)
		}
		byKey[k] = &sc
		list = append(list, &sc)
	}
	return byKey, list, nil
}
