package sslreplay

import (
	"bytes"
	"context"
	"errors"
	"fmt"
	"io"
	"log/slog"
	"strings"
	"time"

	"cedarverif/internal/mempipe"

	"github.com/bbockelm/cedar/commands"
	"github.com/bbockelm/cedar/security"
	"github.com/bbockelm/cedar/stream"
)

func init() {
	slog.SetDefault(slog.New(slog.NewTextHandler(io.Discard, &slog.HandlerOptions{Level: slog.Level(100)})))
}

// Config is one scenario configuration (SSLShim.tla cfg).
type Config struct {
	SrvCert string `json:"srvCert"` // certificate class the server presents, or "none"
	CliCA   string `json:"cliCA"`   // CA the client trusts: "ca" | "other" | "none"
	CliName string `json:"cliName"` // where the client's server name comes from: "config" | "alias" | "wrongconfig" | "unknown"
	CliCert string `json:"cliCert"` // "none" | "client" | "clientbad"
	SrvCA   string `json:"srvCA"`   // "ca" | "none"
	// Broken names the side ("", "c", "s") whose credential files cannot be read
	// (createTLSConfig fails before anything is sent).
	Broken string `json:"broken"`
	// Fallback: both ends also offer a second method (CLAIMTOBE) after SSL (level full only).
	Fallback bool `json:"fallback"`
}

// Obs is what one run of two real endpoints showed.
type Obs struct {
	Level      string // "sub" | "full"
	CliErr     error
	SrvErr     error
	CliHang    bool // did not return before the deadline (the connection was then closed)
	SrvHang    bool
	CliKey     []byte // sub: GetSessionKey(); nil when the handshake failed
	SrvKey     []byte
	KeyOnWire  bool // the session key bytes appear in clear in either direction
	CliMethod  string
	SrvMethod  string
	CliAuthed  bool
	SrvAuthed  bool
	Msgs       []Msg
	PendingRaw int
	WallMs     int64
}

// Deadline bounds one handshake; a side still running then counts as hung.
var Deadline = 20 * time.Second

func (cr *Creds) caFile(which string) string {
	switch which {
	case "ca":
		return cr.CA
	case "other":
		return cr.OtherCA
	}
	return ""
}

func (cr *Creds) sides(cfg Config) (cli, srv *security.SecurityConfig, peerAddr string) {
	mk := func() *security.SecurityConfig {
		return &security.SecurityConfig{
			AuthMethods:    []security.AuthMethod{security.AuthSSL},
			Authentication: security.SecurityRequired,
			CryptoMethods:  []security.CryptoMethod{security.CryptoAES},
			Encryption:     security.SecurityOptional,
			Integrity:      security.SecurityOptional,
			Command:        commands.DC_NOP,
			SessionCache:   security.NewSessionCache(),
		}
	}
	cli, srv = mk(), mk()
	cli.CAFile = cr.caFile(cfg.CliCA)
	srv.CAFile = cr.caFile(cfg.SrvCA)
	if f, ok := cr.Cert[cfg.SrvCert]; ok {
		srv.CertFile, srv.KeyFile = f[0], f[1]
	}
	if f, ok := cr.Cert[cfg.CliCert]; ok {
		cli.CertFile, cli.KeyFile = f[0], f[1]
	}
	switch cfg.Broken {
	case "c":
		cli.CAFile = cr.Dir + "/does-not-exist.pem"
	case "s":
		srv.CAFile = cr.Dir + "/does-not-exist.pem"
	}
	if cfg.Fallback {
		cli.AuthMethods = append(cli.AuthMethods, security.AuthClaimToBe)
		srv.AuthMethods = append(srv.AuthMethods, security.AuthClaimToBe)
	}
	peerAddr = "<127.0.0.1:9618>"
	switch cfg.CliName {
	case "config":
		cli.ServerName = ServerHost
	case "wrongconfig":
		cli.ServerName = OtherHost
	case "alias":
		peerAddr = "<127.0.0.1:9618?alias=" + ServerHost + ">"
	case "unknown":
		peerAddr = ""
	}
	return
}

type result struct {
	err    error
	key    []byte
	method string
	authed bool
}

// RunPair runs one handshake between two real cedar endpoints over an
// in-memory connection and records every message.
//
//	level "sub":  security.NewSSLAuthenticator(...).PerformSSLHandshake on both ends
//	level "full": Authenticator.ClientHandshake / ServerHandshake with method list [SSL]
func (cr *Creds) RunPair(cfg Config, level string) *Obs {
	t0 := time.Now()
	o := &Obs{Level: level}
	cliCfg, srvCfg, peerAddr := cr.sides(cfg)
	craw, sraw := mempipe.C05Pipe("10.4.0.1:40001", "10.4.0.2:9618")
	cconn, sconn, rec := Tap(craw, sraw)
	ctx, cancel := context.WithTimeout(context.Background(), Deadline+5*time.Second)
	defer cancel()
	cs, ss := stream.NewStream(cconn), stream.NewStream(sconn)
	if peerAddr != "" {
		cs.SetPeerAddr(peerAddr)
		cliCfg.PeerName = peerAddr
	}
	ca, sa := security.NewAuthenticator(cliCfg, cs), security.NewAuthenticator(srvCfg, ss)
	cch, sch := make(chan result, 1), make(chan result, 1)
	run := func(client bool, ch chan result) {
		var r result
		defer func() {
			if p := recover(); p != nil {
				r.err = fmt.Errorf("PANIC: %v", p)
			}
			ch <- r
		}()
		a := sa
		if client {
			a = ca
		}
		if level == "sub" {
			ssl := security.NewSSLAuthenticator(a)
			neg := &security.SecurityNegotiation{IsClient: client, ClientConfig: cliCfg, ServerConfig: srvCfg}
			r.err = ssl.PerformSSLHandshake(ctx, neg)
			if r.err == nil {
				r.key = append([]byte(nil), ssl.GetSessionKey()...)
			}
			return
		}
		var neg *security.SecurityNegotiation
		if client {
			neg, r.err = a.ClientHandshake(ctx)
		} else {
			neg, r.err = a.ServerHandshake(ctx)
		}
		if r.err == nil && neg != nil {
			r.method, r.authed = string(neg.NegotiatedAuth), neg.Authentication
		}
	}
	go run(true, cch)
	go run(false, sch)
	// a side that ends with an error drops its connection, as every caller of a
	// failed handshake does; a side that ended well keeps it open
	var cr1, sr1 *result
	timer := time.NewTimer(Deadline)
	defer timer.Stop()
	for cr1 == nil || sr1 == nil {
		select {
		case r := <-cch:
			cr1 = &r
			if r.err != nil {
				_ = craw.Close()
			}
		case r := <-sch:
			sr1 = &r
			if r.err != nil {
				_ = sraw.Close()
			}
		case <-timer.C:
			if cr1 == nil {
				o.CliHang = true
			}
			if sr1 == nil {
				o.SrvHang = true
			}
			_ = craw.Close()
			_ = sraw.Close()
			cancel()
			if cr1 == nil {
				r := <-cch
				cr1 = &r
			}
			if sr1 == nil {
				r := <-sch
				sr1 = &r
			}
		}
	}
	_ = craw.Close()
	_ = sraw.Close()
	o.CliErr, o.SrvErr = cr1.err, sr1.err
	o.CliKey, o.SrvKey = cr1.key, sr1.key
	o.CliMethod, o.SrvMethod, o.CliAuthed, o.SrvAuthed = cr1.method, sr1.method, cr1.authed, sr1.authed
	o.Msgs = rec.Messages()
	o.PendingRaw = rec.Pending()
	for _, k := range [][]byte{o.CliKey, o.SrvKey} {
		if len(k) >= 16 && (bytes.Contains(craw.Sent(), k[:16]) || bytes.Contains(sraw.Sent(), k[:16])) {
			o.KeyOnWire = true
		}
	}
	o.WallMs = time.Since(t0).Milliseconds()
	return o
}

// ErrClass reduces an error to the abstract class the specification speaks about.
func ErrClass(err error) string {
	if err == nil {
		return "ok"
	}
	s := err.Error()
	switch {
	case strings.HasPrefix(s, "PANIC"):
		return "panic"
	case strings.Contains(s, "expected both sides in HOLDING"):
		return "not-holding"
	case strings.Contains(s, "SSL initialization failed"):
		return "init-status"
	case strings.Contains(s, "failed to create TLS config"):
		return "config"
	case strings.Contains(s, "certificate verification failed"), strings.Contains(s, "hostname verification failed"):
		return "cert"
	case strings.Contains(s, "x509:"), strings.Contains(s, "tls: failed to verify certificate"):
		return "cert"
	case strings.Contains(s, "remote error: tls:"):
		return "alert"
	case strings.Contains(s, "no more authentication methods"):
		return "gave-up"
	case errors.Is(err, context.DeadlineExceeded), strings.Contains(s, "deadline"), strings.Contains(s, "i/o timeout"):
		return "timeout"
	case strings.Contains(s, "EOF"), strings.Contains(s, "closed"):
		return "eof"
	}
	return "other"
}
