package sslreplay

import (
	"bytes"
	"context"
	"errors"
	"fmt"
	"io"
	"log/slog"
	"net"
	"strings"
	"time"

	"cedarverif/internal/mempipe"

	"github.com/bbockelm/cedar/commands"
	"github.com/bbockelm/cedar/security"
	"github.com/bbockelm/cedar/stream"
)

func init() {
	slog.SetDefault(slog.New(slog.NewTextHandler(io.Discard, &slog.HandlerOptions{Level: slog.Level(100)})))
}

// Variant selects the concrete member of the abstract configuration and how
// the real roles are driven.
type Variant struct {
	// NameVia: where the real client's server name comes from: "config" / "wrongconfig"
	// (SecurityConfig.ServerName), "alias" / "wrongalias" (the alias of the sinful it
	// dialed), "unknown" (nothing configured and a sinful without host name: the
	// address is all there is).
	NameVia string `json:"nameVia"`
	// Level: "sub" = security.NewSSLAuthenticator(...).PerformSSLHandshake on the real
	// roles; "full" = Authenticator.ClientHandshake / ServerHandshake, method list [SSL]
	// (only when both roles are real).
	Level string `json:"level"`
	// Fallback: both ends offer CLAIMTOBE after SSL (level full).
	Fallback bool `json:"fallback"`
	// Family: key family of the run-time credentials ("" = "ecdsa", "rsa"); Rep: repetition.
	Family string `json:"family,omitempty"`
	Rep    int    `json:"rep,omitempty"`
	// HangMs: how long a run may take before the roles still running count as hung
	// (0: Deadline). Short for the runs today's model expects to hang.
	HangMs int `json:"hangMs,omitempty"`
}

// Deadline bounds one handshake; a side still running then counts as hung.
var Deadline = 30 * time.Second

// RoleObs is what one role of a run showed.
type RoleObs struct {
	Real    bool   `json:"real"`
	Outcome string `json:"outcome"` // done | failed | aborted | hang
	Err     string `json:"err,omitempty"`
	Class   string `json:"class,omitempty"`
	Method  string `json:"method,omitempty"` // level full: NegotiatedAuth
	Authed  bool   `json:"authed,omitempty"`
	key     []byte
}

// Obs is what one run showed.
type Obs struct {
	Role      map[string]*RoleObs `json:"role"`
	Events    []Event             `json:"-"`
	KeysEqual bool                `json:"keysEqual"`
	KeyLen    int                 `json:"keyLen"`
	KeyOnWire bool                `json:"keyOnWire"`
	Unread    [2]int              `json:"unread"`
	Broken    string              `json:"broken,omitempty"` // harness inconsistency
	WallMs    int64               `json:"wallMs"`
}

func (cr *Creds) caFile(which string) string {
	switch which {
	case "ca":
		return cr.CA
	case "other":
		return cr.OtherCA
	}
	return ""
}

// realConfigs builds the SecurityConfigs of the real roles.
func (cr *Creds) realConfigs(b Base, v Variant) (cli, srv *security.SecurityConfig, peerAddr string) {
	mk := func() *security.SecurityConfig {
		return &security.SecurityConfig{
			AuthMethods:    []security.AuthMethod{security.AuthSSL},
			Authentication: security.SecurityRequired,
			CryptoMethods:  []security.CryptoMethod{security.CryptoAES},
			Encryption:     security.SecurityOptional,
			Integrity:      security.SecurityOptional,
			Command:        commands.DC_NOP,
			SessionCache:   security.NewSessionCache(),
		}
	}
	cli, srv = mk(), mk()
	cli.CAFile = cr.caFile(b.Trust)
	srv.CAFile = cr.CA
	if f, ok := cr.Cert[b.SrvCert]; ok {
		srv.CertFile, srv.KeyFile = f[0], f[1]
	}
	if f, ok := cr.Cert[b.CliCert]; ok {
		cli.CertFile, cli.KeyFile = f[0], f[1]
	}
	switch b.Broken {
	case "c":
		cli.CAFile = cr.Dir + "/does-not-exist.pem"
	case "s":
		srv.CAFile = cr.Dir + "/does-not-exist.pem"
	}
	if v.Fallback {
		cli.AuthMethods = append(cli.AuthMethods, security.AuthClaimToBe)
		srv.AuthMethods = append(srv.AuthMethods, security.AuthClaimToBe)
	}
	peerAddr = "<127.0.0.1:9618>"
	switch v.NameVia {
	case "config":
		cli.ServerName = ServerHost
	case "wrongconfig":
		cli.ServerName = OtherHost
	case "alias":
		peerAddr = "<127.0.0.1:9618?alias=" + ServerHost + ">"
	case "wrongalias":
		peerAddr = "<127.0.0.1:9618?alias=" + OtherHost + ">"
	case "unknown":
		// nothing configured, no alias: cedar falls back to the host part of the address
	}
	return
}

// NameVias lists the concrete members of the abstract class "the server name
// the client expects": host = the name the good certificate is issued for,
// otherhost = the name the wrongname certificate is issued for, address =
// no name at all (only the IP address of the peer).
func NameVias(name string) []string {
	switch name {
	case "host":
		return []string{"config", "alias"}
	case "otherhost":
		return []string{"wrongconfig", "wrongalias"}
	}
	return []string{"unknown"}
}

type realResult struct {
	err    error
	key    []byte
	method string
	authed bool
}

type halfCloser interface{ CloseWrite() }

func (t *tapConn) CloseWrite() {
	if hc, ok := t.Conn.(halfCloser); ok {
		hc.CloseWrite()
	}
}

// Run executes one behaviour: real code for the roles of style "cedar",
// scripted peers (walking sc) for the roles of style "htcondor".
func (cr *Creds) Run(sc *Scenario, v Variant) *Obs {
	t0 := time.Now()
	cfg := sc.Cfg()
	o := &Obs{Role: map[string]*RoleObs{"c": {Real: cfg.Cstyle == "cedar"}, "s": {Real: cfg.Sstyle == "cedar"}}}
	limit := Deadline
	if v.HangMs > 0 {
		limit = time.Duration(v.HangMs) * time.Millisecond
	}
	cliCfg, srvCfg, peerAddr := cr.realConfigs(cfg.Base, v)
	craw, sraw := mempipe.C05Pipe("10.4.0.1:40001", "10.4.0.2:9618")
	cconn, sconn, rec := Tap(craw, sraw)
	ctx, cancel := context.WithTimeout(context.Background(), limit+10*time.Second)
	defer cancel()

	type ended struct {
		role   string
		real   *realResult
		script *scriptResult
	}
	ch := make(chan ended, 2)
	runReal := func(role string, conn net.Conn) {
		client := role == "c"
		var r realResult
		defer func() {
			if p := recover(); p != nil {
				r.err = fmt.Errorf("PANIC: %v", p)
			}
			ch <- ended{role: role, real: &r}
		}()
		st := stream.NewStream(conn)
		c := srvCfg
		if client {
			c = cliCfg
			st.SetPeerAddr(peerAddr)
			c.PeerName = peerAddr
		}
		a := security.NewAuthenticator(c, st)
		if v.Level == "full" {
			var neg *security.SecurityNegotiation
			if client {
				neg, r.err = a.ClientHandshake(ctx)
			} else {
				neg, r.err = a.ServerHandshake(ctx)
			}
			if r.err == nil && neg != nil {
				r.method, r.authed = string(neg.NegotiatedAuth), neg.Authentication
			}
			return
		}
		ssl := security.NewSSLAuthenticator(a)
		neg := &security.SecurityNegotiation{IsClient: client, ClientConfig: cliCfg, ServerConfig: srvCfg}
		r.err = ssl.PerformSSLHandshake(ctx, neg)
		if r.err == nil {
			r.key = append([]byte(nil), ssl.GetSessionKey()...)
		}
	}
	conns := map[string]net.Conn{"c": cconn, "s": sconn}
	raws := map[string]*mempipe.C05Conn{"c": craw, "s": sraw}
	for _, role := range []string{"c", "s"} {
		if o.Role[role].Real {
			go runReal(role, conns[role])
		} else {
			role := role
			go func() { ch <- ended{role: role, script: cr.runScript(sc, role, conns[role])} }()
		}
	}
	timer := time.NewTimer(limit)
	defer timer.Stop()
	got := map[string]*ended{}
	hung := map[string]bool{}
	for len(got) < 2 {
		select {
		case e := <-ch:
			got[e.role] = &e
			// a real role that ended badly drops its sending direction, as every caller
			// of a failed handshake does sooner or later (what it has sent stays readable);
			// a scripted role does so itself when its script is over
			if e.real != nil && e.real.err != nil {
				raws[e.role].CloseWrite()
			}
		case <-timer.C:
			for _, role := range []string{"c", "s"} {
				if got[role] == nil {
					hung[role] = true
				}
			}
			_ = craw.Close()
			_ = sraw.Close()
			cancel()
			for len(got) < 2 {
				e := <-ch
				e2 := e
				got[e.role] = &e2
			}
		}
	}
	_ = craw.Close()
	_ = sraw.Close()
	for _, role := range []string{"c", "s"} {
		ro, e := o.Role[role], got[role]
		switch {
		case hung[role]:
			ro.Outcome = "hang"
			if e.real != nil && e.real.err != nil {
				ro.Err = e.real.err.Error()
			}
		case e.real != nil:
			ro.key, ro.Method, ro.Authed = e.real.key, e.real.method, e.real.authed
			if e.real.err == nil {
				ro.Outcome = "done"
			} else {
				ro.Err, ro.Class = e.real.err.Error(), ErrClass(e.real.err)
				ro.Outcome = "failed"
				if ro.Class == "eof" {
					ro.Outcome = "aborted"
				}
			}
		default:
			s := e.script
			if s.broken != "" {
				o.Broken = s.broken
			}
			ro.key = s.key
			// a scripted role ends as the behaviour it walked says, unless it was cut short
			ro.Outcome = sc.Final().C
			if role == "s" {
				ro.Outcome = sc.Final().S
			}
			if s.stoppedAt >= 0 {
				ro.Outcome = "aborted"
				ro.Err = fmt.Sprintf("script stopped at its step %d: %v", s.stoppedAt, s.stopErr)
			} else if ro.Outcome == "done" && s.key == nil {
				ro.Outcome = "failed"
				ro.Err = fmt.Sprintf("scripted role's TLS engine did not complete: %v", s.hsErr)
			}
		}
	}
	o.Events = rec.Events()
	o.Unread[0], o.Unread[1] = rec.Unread()
	ck, sk := o.Role["c"].key, o.Role["s"].key
	o.KeyLen = len(ck)
	o.KeysEqual = len(ck) > 0 && bytes.Equal(ck, sk)
	for _, k := range [][]byte{ck, sk} {
		if len(k) >= 16 && (bytes.Contains(craw.Sent(), k[:16]) || bytes.Contains(sraw.Sent(), k[:16])) {
			o.KeyOnWire = true
		}
	}
	o.WallMs = time.Since(t0).Milliseconds()
	return o
}

// ErrClass reduces an error to an abstract class.
func ErrClass(err error) string {
	if err == nil {
		return "ok"
	}
	s := err.Error()
	switch {
	case strings.HasPrefix(s, "PANIC"):
		return "panic"
	case strings.Contains(s, "expected both sides in HOLDING"):
		return "not-holding"
	case strings.Contains(s, "SSL initialization failed"):
		return "init-status"
	case strings.Contains(s, "failed to create TLS config"):
		return "config"
	case strings.Contains(s, "x509:"), strings.Contains(s, "tls: failed to verify certificate"):
		return "cert"
	case strings.Contains(s, "remote error: tls:"):
		return "alert"
	case strings.Contains(s, "no more authentication methods"):
		return "gave-up"
	case strings.Contains(s, "EOF"), strings.Contains(s, "closed pipe"), strings.Contains(s, "use of closed"):
		return "eof"
	case errors.Is(err, context.DeadlineExceeded), errors.Is(err, context.Canceled), strings.Contains(s, "deadline"), strings.Contains(s, "i/o timeout"):
		return "timeout"
	}
	return "other"
}
