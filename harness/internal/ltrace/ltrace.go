// Package ltrace builds per-connection life-cycle traces out of the three hook
// streams of /repo (stream, security, server; build tag verif) and has TLC
// validate them against spec/ConnLifecycle_Trace.tla (code -> spec, cross-layer).
package ltrace

import (
	"bufio"
	"encoding/json"
	"fmt"
	"os"
	"os/exec"
	"path/filepath"
	"regexp"
	"sort"
	"sync"

	"cedarverif/internal/core"
	"cedarverif/internal/kit"
	"cedarverif/internal/otrace"

	"github.com/bbockelm/cedar/security"
	"github.com/bbockelm/cedar/server"
	"github.com/bbockelm/cedar/stream"
)

type Event = map[string]any

func num(v any) int64 {
	switch x := v.(type) {
	case float64:
		return int64(x)
	case int:
		return int64(x)
	case int64:
		return x
	case uint64:
		return int64(x)
	case uint32:
		return int64(x)
	}
	return 0
}

// Collector gathers the events of all three hook packages in memory.
type Collector struct {
	mu  sync.Mutex
	str []Event
	oth []Event
}

func (c *Collector) Install() {
	stream.VerifSink = func(r map[string]any) { c.mu.Lock(); c.str = append(c.str, r); c.mu.Unlock() }
	security.VerifSink = func(r map[string]any) { c.mu.Lock(); c.oth = append(c.oth, r); c.mu.Unlock() }
	server.VerifSink = func(r map[string]any) { c.mu.Lock(); c.oth = append(c.oth, r); c.mu.Unlock() }
}

func (c *Collector) Uninstall() {
	stream.VerifSink, security.VerifSink, server.VerifSink = nil, nil, nil
}

// Groups returns the merged per-stream traces collected so far.
func (c *Collector) Groups() [][]Event {
	c.mu.Lock()
	defer c.mu.Unlock()
	return Merge(c.str, c.oth)
}

// StreamEvents returns the raw stream events (for strace validation).
func (c *Collector) StreamEvents() []Event {
	c.mu.Lock()
	defer c.mu.Unlock()
	return append([]Event(nil), c.str...)
}

// Merge places every security / server event into the event order of the stream
// it refers to (fields st = stream id, sq = number of stream events before it).
func Merge(streamEvs, others []Event) [][]Event {
	type item struct {
		pos, sub, ord int64
		e             Event
	}
	by := map[int64][]item{}
	var order []int64
	add := func(st int64, it item) {
		if _, ok := by[st]; !ok {
			order = append(order, st)
		}
		by[st] = append(by[st], it)
	}
	for i, e := range streamEvs {
		ev, _ := e["ev"].(string)
		k, _ := e["keyed"].(bool)
		en, _ := e["enc"].(bool)
		add(num(e["o"]), item{pos: num(e["q"]), sub: 0, ord: int64(i), e: Event{"ev": ev, "keyed": k, "enc": en}})
	}
	for i, e := range others {
		st := num(e["st"])
		if st == 0 {
			continue
		}
		n := otrace.Normalise(e, false)
		if n == nil {
			continue
		}
		add(st, item{pos: num(e["sq"]), sub: 1, ord: int64(i), e: n})
	}
	var out [][]Event
	for _, st := range order {
		its := by[st]
		sort.SliceStable(its, func(a, b int) bool {
			if its[a].pos != its[b].pos {
				return its[a].pos < its[b].pos
			}
			if its[a].sub != its[b].sub {
				return its[a].sub < its[b].sub
			}
			return its[a].ord < its[b].ord
		})
		g := make([]Event, 0, len(its))
		interesting := false
		for _, it := range its {
			g = append(g, it.e)
			if it.sub == 1 {
				interesting = true
			}
		}
		if interesting { // streams that never saw a handshake or dispatch are covered by strace
			out = append(out, g)
		}
	}
	return out
}

var pidRe = regexp.MustCompile(`-(\d+)\.ndjson$`)

// LoadDir merges the hook files of a trace directory, process by process.
func LoadDir(dir string) ([][]Event, error) {
	files, _ := filepath.Glob(filepath.Join(dir, "*.ndjson"))
	sort.Strings(files)
	type pair struct{ str, oth []Event }
	byPid := map[string]*pair{}
	var pids []string
	for _, f := range files {
		m := pidRe.FindStringSubmatch(f)
		if m == nil {
			continue
		}
		p := byPid[m[1]]
		if p == nil {
			p = &pair{}
			byPid[m[1]] = p
			pids = append(pids, m[1])
		}
		fh, err := os.Open(f)
		if err != nil {
			return nil, err
		}
		sc := bufio.NewScanner(fh)
		sc.Buffer(make([]byte, 1<<20), 1<<26)
		isStream := filepath.Base(f)[:7] == "stream-"
		for sc.Scan() {
			var e Event
			if json.Unmarshal(sc.Bytes(), &e) != nil {
				continue
			}
			if isStream {
				p.str = append(p.str, e)
			} else {
				p.oth = append(p.oth, e)
			}
		}
		fh.Close()
	}
	var out [][]Event
	for _, pid := range pids {
		out = append(out, Merge(byPid[pid].str, byPid[pid].oth)...)
	}
	return out, nil
}

// Validate validates life-cycle groups; keep selects which rejected events count
// for the calling property (nil = all).
func Validate(c *core.Ctx, groups [][]Event, label string, keep func(Event) bool) {
	if len(groups) == 0 {
		return
	}
	acc, rej := kit.ValidateGroups(c, "ConnLifecycle_Trace.tla", "ConnLifecycle_Trace.cfg", groups, label)
	c.Add("lifecycle_traces_validated_by_tlc", int64(acc))
	for _, r := range rej {
		e := groups[r.Group][r.Index]
		if keep != nil && !keep(e) {
			continue
		}
		sig := otrace.Describe(e)
		sig["spec"] = "ConnLifecycle"
		sig["source"] = label
		c.Fail(core.Failure{Signature: sig,
			Detail:   fmt.Sprintf("TLC cannot explain %v in the life cycle of a real connection (ConnLifecycle rules L1-L4 / HandshakeOK / DispatchOK): %v", e["ev"], e),
			Scenario: map[string]any{"kind": "LifecycleTrace", "events": groups[r.Group][:r.Index+1]}})
	}
}

// RunRepoTests runs the repository's tests of pkgs with all hooks on and returns
// the merged life-cycle groups.
func RunRepoTests(c *core.Ctx, pkgs ...string) ([][]Event, error) {
	dir := filepath.Join(c.Tmp, "repotrace-lifecycle")
	_ = os.RemoveAll(dir)
	if err := os.MkdirAll(dir, 0o755); err != nil {
		return nil, err
	}
	args := append([]string{"test", "-tags", "verif", "-vet=off", "-count=1"}, pkgs...)
	cmd := exec.Command("go", args...)
	cmd.Dir = core.RepoDir()
	cmd.Env = append(os.Environ(), "CEDAR_VERIF_TRACE_DIR="+dir, "GOFLAGS=-mod=mod", "GOPROXY=off")
	if out, err := cmd.CombinedOutput(); err != nil {
		c.Note("repository tests with hooks on did not all pass: " + kit.FirstLines(string(out), 8))
	}
	return LoadDir(dir)
}
