// temporary mutation-experiment runner (deleted after use)
package main

import (
	"bufio"
	"encoding/json"
	"fmt"
	"os"
	"sort"
	"sync"

	"cedarverif/internal/core"
	"cedarverif/internal/filereplay"
)

func main() {
	tmp, _ := os.MkdirTemp("", "g02mut")
	defer os.RemoveAll(tmp)
	var scs []*filereplay.Scenario
	for _, f := range os.Args[1:] {
		fh, err := os.Open(f)
		if err != nil {
			panic(err)
		}
		sc := bufio.NewScanner(fh)
		sc.Buffer(make([]byte, 1<<20), 1<<28)
		for sc.Scan() {
			var w struct {
				Scn *filereplay.Scenario `json:"scn"`
			}
			if err := json.Unmarshal(sc.Bytes(), &w); err != nil {
				panic(err)
			}
			scs = append(scs, w.Scn)
		}
		fh.Close()
	}
	filereplay.Watchdog = 60e9
	var mu sync.Mutex
	sigs := map[string]int{}
	demo := map[string]string{}
	obs := 0
	core.ParallelFor(len(scs), 8, func(i int) {
		sc := scs[i]
		v := filereplay.Variant{Salt: 1, MsgAPI: i % 3, Pipe: true, CutSel: i*7919 + 3}
		var st filereplay.Stats
		d := filereplay.Run(sc, v, fmt.Sprintf("%s/j%d", tmp, i), &st)
		if d == nil {
			return
		}
		mu.Lock()
		defer mu.Unlock()
		if d.Observed != "" {
			obs++
			return
		}
		k := fmt.Sprintf("%v broken=%v", filereplay.Signature(d)["invariant"]+"/"+filereplay.Signature(d)["action"]+"/"+d.Pass, d.Broken)
		sigs[k]++
		if _, ok := demo[k]; !ok {
			demo[k] = d.Error()
		}
	})
	// alloc probes
	for i, sc := range scs {
		for _, it := range sc.Items {
			if it.Dev == "announceMore" && it.Delta >= filereplay.ModelBig && i%4 == 0 {
				for _, h := range []int64{1 << 62, 1 << 32} {
					a, w, d := filereplay.AllocProbe(sc, filereplay.Variant{Salt: 1, Huge: h}, fmt.Sprintf("%s/p%d", tmp, i))
					if d != nil && d.Observed == "" {
						sigs["probe:"+d.Invariant]++
						demo["probe:"+d.Invariant] = d.Error()
					} else if a > uint64(6*w)+8<<20 {
						sigs["probe:BoundedAlloc"]++
						demo["probe:BoundedAlloc"] = fmt.Sprintf("allocated %d for %d wire bytes", a, w)
					}
				}
			}
		}
	}
	keys := []string{}
	for k := range sigs {
		keys = append(keys, k)
	}
	sort.Strings(keys)
	fmt.Printf("scenarios=%d observations=%d failing-classes=%d\n", len(scs), obs, len(keys))
	for _, k := range keys {
		d := demo[k]
		if len(d) > 300 {
			d = d[:300]
		}
		fmt.Printf("  %5d  %s\n         %s\n", sigs[k], k, d)
	}
}
