// Package filereplay binds spec/FileTransfer.tla to the real cedar code (growth
// module G02: stream.PutFile / stream.GetFile).
//
// A behaviour printed by Gen_FileTransfer (mode, plan, the items the sender
// performed with size class and deviation, the model's wire including a cut,
// the results the model expects on both ends) is replayed in up to four passes:
//
//	R  reference -> real: the INDEPENDENT reference codec (refcodec frames /
//	   sealer) builds exactly the model's frames - this is also the deviating
//	   peer - and a real stream performs the receiver's calls (GetFile into a
//	   real file below the scratch directory / a receive API for ordinary
//	   messages); results, byte counts and file contents are compared with the
//	   model after every call;
//	S  real sender (sessions without a deviation): a real stream performs the
//	   sender's calls (PutFile of a real file) into a connection that is cut
//	   where the model cuts; its results are compared with the model and what
//	   it wrote is parsed (and opened) by the reference codec and checked
//	   against the HonestWire predicate of the specification;
//	C  real -> real: the bytes of pass S are read by a fresh real receiver;
//	P  real <-> real concurrently over a blocking in-memory pipe with a
//	   cancellable context (the connection is closed when the sender is done
//	   or cut), under a watchdog: no call may hang once the connection is
//	   closed.
//
// File and message contents are a deterministic pseudo-random function of
// (salt, item); the model tracks (item, what, offset, length) segments.
package filereplay

import (
	"bytes"
	"context"
	"encoding/binary"
	"errors"
	"fmt"
	"io"
	"net"
	"os"
	"path/filepath"
	"runtime"
	"sync"
	"time"

	"cedarverif/internal/refcodec"
	"cedarverif/internal/wire"

	"github.com/bbockelm/cedar/message"
	"github.com/bbockelm/cedar/stream"
)

const (
	Chunk    = 65536
	ModelBig = 1 << 30 // the model's "more than anything" delta
)

type Item struct {
	Kind  string `json:"kind"`
	Size  int    `json:"size"`
	Dev   string `json:"dev"`
	Delta int    `json:"delta"`
	Split bool   `json:"split"`
}

type Frame struct {
	What string `json:"what"`
	Item int    `json:"item"`
	Off  int    `json:"off"`
	Plen int    `json:"plen"`
	Val  int    `json:"val"`
	End  int    `json:"end"`
	Wlen int    `json:"wlen"`
	Cut  string `json:"cut"`
}

type Seg struct {
	Item int    `json:"item"`
	What string `json:"what"`
	Off  int    `json:"off"`
	Len  int    `json:"len"`
}

type SRes struct {
	OK bool `json:"ok"`
	N  int  `json:"n"`
}

type RRes struct {
	OK     bool  `json:"ok"`
	N      int   `json:"n"`
	File   []Seg `json:"file"`
	Silent bool  `json:"silent"`
}

type Step struct {
	A  string `json:"a"`
	OK bool   `json:"ok"`
}

type Scenario struct {
	Enc   bool     `json:"enc"`
	Plan  []string `json:"plan"`
	Items []Item   `json:"items"`
	Wire  []Frame  `json:"wire"`
	Sres  []SRes   `json:"sres"`
	Rres  []RRes   `json:"rres"`
	Hist  []Step   `json:"hist"`
}

// Variant is the concrete expansion of the abstract classes of a behaviour.
type Variant struct {
	Salt    int   `json:"salt"`
	MsgAPI  int   `json:"msgapi"`  // ordinary messages: 0 stream calls, 1 buffered calls, 2 typed Message
	CutSel  int   `json:"cutsel"`  // where inside the header / body the cut falls: -1 first byte, -2 last byte, >=0 seeded
	Dribble int   `json:"dribble"` // >0: the receiver's connection returns at most this many bytes per Read
	Huge    int64 `json:"huge"`    // what the model's 2^30 delta stands for (default 2^62)
	NegMin  bool  `json:"negmin"`  // negative size: math.MinInt64 instead of -1
	Pipe    bool  `json:"pipe"`    // also run pass P
}

// Diff is a difference between the model and the real code.
type Diff struct {
	Invariant string
	Action    string
	Mode      string
	Dev       string // deviation or "cut:<how>" or "none"
	Size      string // size class of the item concerned
	Pass      string
	Detail    string
	Broken    bool   // harness / model inconsistency, not a finding
	Observed  string // non-empty: a deviation of the pinned tree recorded as an observation, not a failure
}

func (d *Diff) Error() string {
	return fmt.Sprintf("[pass %s] %s violated at %s (%s, deviation %s, size %s): %s", d.Pass, d.Invariant, d.Action, d.Mode, d.Dev, d.Size, d.Detail)
}

func Signature(d *Diff) map[string]string {
	return map[string]string{"spec": "FileTransfer", "invariant": d.Invariant, "action": d.Action,
		"mode": d.Mode, "deviation": d.Dev, "size": d.Size}
}

type Stats struct {
	RealCalls       int64
	FilesSent       int64 // PutFile calls that completed
	FilesReceived   int64 // GetFile calls that completed and were compared byte for byte
	FileBytes       int64
	ErrorsAgreed    int64 // calls where model and real code both report an error
	SilentAccepted  int64 // outcome the documentation leaves open: real code accepted
	SilentRefused   int64 // ... real code refused
	RefFramesFed    int64
	FramesParsed    int64
	ModelCutsMatch  int64
	PipeRuns        int64
	Observations    map[string]int64
	ObservationDemo map[string]string
}

func (s *Stats) Add(o *Stats) {
	s.RealCalls += o.RealCalls
	s.FilesSent += o.FilesSent
	s.FilesReceived += o.FilesReceived
	s.FileBytes += o.FileBytes
	s.ErrorsAgreed += o.ErrorsAgreed
	s.SilentAccepted += o.SilentAccepted
	s.SilentRefused += o.SilentRefused
	s.RefFramesFed += o.RefFramesFed
	s.FramesParsed += o.FramesParsed
	s.ModelCutsMatch += o.ModelCutsMatch
	s.PipeRuns += o.PipeRuns
	for k, v := range o.Observations {
		if s.Observations == nil {
			s.Observations = map[string]int64{}
			s.ObservationDemo = map[string]string{}
		}
		s.Observations[k] += v
		if _, ok := s.ObservationDemo[k]; !ok {
			s.ObservationDemo[k] = o.ObservationDemo[k]
		}
	}
}

func (s *Stats) observe(key, demo string) {
	if s.Observations == nil {
		s.Observations = map[string]int64{}
		s.ObservationDemo = map[string]string{}
	}
	s.Observations[key]++
	if _, ok := s.ObservationDemo[key]; !ok {
		s.ObservationDemo[key] = demo
	}
}

// Watchdog is how long one pass may take before it is reported as a hang.
var Watchdog = 4 * time.Minute

// ---------------------------------------------------------------------------
// concrete bytes

type prng uint64

func (p *prng) next() uint64 {
	x := uint64(*p)
	x ^= x << 13
	x ^= x >> 7
	x ^= x << 17
	*p = prng(x)
	return x
}

func fill(b []byte, seed uint64) {
	p := prng(seed*0x9E3779B97F4A7C15 + 0x2545F491)
	if p == 0 {
		p = 1
	}
	i := 0
	for ; i+8 <= len(b); i += 8 {
		binary.LittleEndian.PutUint64(b[i:], p.next())
	}
	if i < len(b) {
		x := p.next()
		for ; i < len(b); i++ {
			b[i] = byte(x)
			x >>= 8
		}
	}
}

func key(v Variant) []byte {
	k := make([]byte, 32)
	fill(k, uint64(v.Salt)+77)
	return k
}

// world holds the concrete values of one scenario x variant.
type world struct {
	sc      *Scenario
	v       Variant
	content [][]byte // per item (0-based): file data / message content
}

func newWorld(sc *Scenario, v Variant) *world {
	w := &world{sc: sc, v: v}
	for i, it := range sc.Items {
		b := make([]byte, it.Size)
		fill(b, uint64(v.Salt)<<16^uint64(i+1))
		if it.Kind == "msg" && len(b) == 4 {
			b[3] ^= 1 // never the marker (the model keeps message lengths off 4 and 8 anyway)
		}
		w.content = append(w.content, b)
	}
	return w
}

func (w *world) announced(i int) int64 {
	it := w.sc.Items[i]
	a := int64(it.Size)
	switch it.Dev {
	case "announceMore":
		d := int64(it.Delta)
		if d >= ModelBig {
			d = w.v.Huge
			if d == 0 {
				d = 1 << 62
			}
		}
		a += d
	case "announceFewer":
		a -= int64(it.Delta)
	case "negSize":
		a = -1
		if w.v.NegMin {
			a = -1 << 63
		}
	}
	return a
}

func (w *world) sizeBytes(i int) []byte {
	b := make([]byte, 8)
	binary.BigEndian.PutUint64(b, uint64(w.announced(i)))
	return b
}

func (w *world) markerBytes(i int) []byte {
	val := uint32(666)
	if w.sc.Items[i].Dev == "wrongMarkerVal" {
		val = 667
	}
	b := make([]byte, 4)
	binary.BigEndian.PutUint32(b, val)
	return b
}

// segBytes maps a model segment to concrete bytes.
func (w *world) segBytes(what string, item, off, n int) ([]byte, error) {
	i := item - 1
	if i < 0 || i >= len(w.sc.Items) {
		return nil, fmt.Errorf("segment of unknown item %d", item)
	}
	var src []byte
	switch what {
	case "data", "msg":
		src = w.content[i]
	case "size":
		src = w.sizeBytes(i)
	case "marker":
		src = w.markerBytes(i)
	case "empty":
		src = nil
	default:
		return nil, fmt.Errorf("unknown segment kind %q", what)
	}
	if off < 0 || n < 0 || off+n > len(src) {
		return nil, fmt.Errorf("segment %s[%d:%d] of item %d outside its %d bytes", what, off, off+n, item, len(src))
	}
	return src[off : off+n], nil
}

func (w *world) segsBytes(segs []Seg) ([]byte, error) {
	var out []byte
	for _, s := range segs {
		b, err := w.segBytes(s.What, s.Item, s.Off, s.Len)
		if err != nil {
			return nil, err
		}
		out = append(out, b...)
	}
	return out, nil
}

func sizeClass(n int) string {
	switch {
	case n == 0:
		return "0"
	case n == 1:
		return "1"
	case n == Chunk-1:
		return "Chunk-1"
	case n == Chunk:
		return "Chunk"
	case n == Chunk+1:
		return "Chunk+1"
	case n%Chunk == 0:
		return fmt.Sprintf("%dxChunk", n/Chunk)
	case n > Chunk:
		return fmt.Sprintf("%dxChunk+%d", n/Chunk, n%Chunk)
	}
	return fmt.Sprintf("%d", n)
}

func mode(enc bool) string {
	if enc {
		return "encrypted"
	}
	return "plain"
}

// cutOf names the cut of the scenario ("" if the connection is never cut).
func (sc *Scenario) cutOf() string {
	for _, h := range sc.Hist {
		if len(h.A) > 8 && h.A[:8] == "CutNext:" {
			return h.A[8:]
		}
	}
	return ""
}

func (sc *Scenario) deviation() (int, string) {
	for i, it := range sc.Items {
		if it.Dev != "none" {
			return i, it.Dev
		}
	}
	return -1, "none"
}

// devLabel is the deviation / cut label of the signature for item i.
func (sc *Scenario) devLabel(i int) string {
	if i >= 0 && i < len(sc.Items) && sc.Items[i].Dev != "none" {
		it := sc.Items[i]
		switch it.Dev {
		case "announceMore", "announceFewer":
			d := fmt.Sprintf("%d", it.Delta)
			if it.Delta >= ModelBig {
				d = "huge"
			} else if it.Delta == Chunk {
				d = "Chunk"
			}
			return it.Dev + ":" + d
		}
		return it.Dev
	}
	if _, d := sc.deviation(); d != "none" {
		return "after:" + d
	}
	if c := sc.cutOf(); c != "" {
		return "cut:" + c
	}
	return "none"
}

func (sc *Scenario) itemSize(i int) string {
	if i >= 0 && i < len(sc.Items) {
		if sc.Items[i].Kind == "msg" {
			return "msg"
		}
		return sizeClass(sc.Items[i].Size)
	}
	return "-"
}

func (w *world) diff(pass, inv, action string, item int, detail string) *Diff {
	return &Diff{Invariant: inv, Action: action, Mode: mode(w.sc.Enc), Dev: w.sc.devLabel(item), Size: w.sc.itemSize(item), Pass: pass, Detail: detail}
}

func diffAt(a, b []byte) string {
	n := len(a)
	if len(b) < n {
		n = len(b)
	}
	for i := 0; i < n; i++ {
		if a[i] != b[i] {
			return fmt.Sprintf("first difference at byte %d (lengths %d vs %d)", i, len(a), len(b))
		}
	}
	return fmt.Sprintf("lengths %d vs %d", len(a), len(b))
}

// ---------------------------------------------------------------------------
// reference-built wire (pass R; this is also the deviating peer)

func cutPoint(sel, n int) int { // a position in [0, n-1]
	if n <= 1 {
		return 0
	}
	switch {
	case sel == -1:
		return 0
	case sel == -2:
		return n - 1
	}
	return sel % n
}

// refWire renders the model's wire with the reference codec; a cut frame is
// truncated inside its header / body and ends the byte string.
func (w *world) refWire(stt *Stats) ([]byte, *Diff) {
	var sl *refcodec.Sealer
	if w.sc.Enc {
		var iv [16]byte
		fill(iv[:], uint64(w.v.Salt)+991)
		sl = refcodec.NewSealer(key(w.v), iv, [32]byte{}, [32]byte{})
	}
	var out []byte
	for k, f := range w.sc.Wire {
		plain, err := w.segBytes(f.What, f.Item, f.Off, f.Plen)
		if err != nil {
			return nil, &Diff{Broken: true, Detail: err.Error()}
		}
		var fr refcodec.Frame
		if w.sc.Enc {
			fr = sl.Seal(byte(f.End), plain)
		} else {
			fr = refcodec.Frame{End: byte(f.End), Body: append([]byte(nil), plain...)}
		}
		if len(fr.Body) != f.Wlen {
			return nil, &Diff{Broken: true, Detail: fmt.Sprintf("frame %d: reference codec wire length %d, model WireLen %d", k, len(fr.Body), f.Wlen)}
		}
		enc := fr.Encode()
		stt.RefFramesFed++
		switch f.Cut {
		case "none":
			out = append(out, enc...)
		case "hdr":
			return append(out, enc[:1+cutPoint(w.v.CutSel, 4)]...), nil
		case "body":
			if f.Wlen == 0 {
				return append(out, enc[:1+cutPoint(w.v.CutSel, 4)]...), nil
			}
			return append(out, enc[:refcodec.HeaderSize+cutPoint(w.v.CutSel, f.Wlen)]...), nil
		default:
			return nil, &Diff{Broken: true, Detail: "unknown cut " + f.Cut}
		}
	}
	return out, nil
}

// ---------------------------------------------------------------------------
// real receiver

type recvOut struct {
	ok   bool
	n    int64
	data []byte // file content / message
	err  string
	path string
	junk bool // the destination existed before the call
}

const junkContent = "previous content of the destination file, 64 bytes long ...........\n"

func newStream(c net.Conn, enc bool, v Variant) (*stream.Stream, error) {
	st := stream.NewStream(c)
	if enc {
		if err := st.SetSymmetricKey(key(v)); err != nil {
			return nil, err
		}
	}
	return st, nil
}

func recvMsg(ctx context.Context, st *stream.Stream, api int, want int) ([]byte, error) {
	switch api {
	case 1:
		// the application knows how long the message is (reading past the end of
		// a message is outside this module)
		if err := st.StartMessageRead(ctx); err != nil {
			return nil, err
		}
		var out []byte
		for len(out) < want {
			buf := make([]byte, 7)
			if want-len(out) < len(buf) {
				buf = buf[:want-len(out)]
			}
			n, err := st.ReadMessageBytes(ctx, buf)
			if err != nil {
				return nil, err
			}
			if n == 0 {
				return nil, fmt.Errorf("ReadMessageBytes returned 0 bytes")
			}
			out = append(out, buf[:n]...)
		}
		if err := st.EndMessageRead(); err != nil {
			return nil, err
		}
		return out, nil
	case 2:
		return message.NewMessageFromStream(st).GetRemainingBytes(ctx)
	}
	return st.ReceiveCompleteMessage(ctx)
}

// runReceiver performs the receiver's calls of the plan until the first error.
func (w *world) runReceiver(ctx context.Context, conn net.Conn, dir, tag string, stt *Stats) ([]recvOut, error) {
	st, err := newStream(conn, w.sc.Enc, w.v)
	if err != nil {
		return nil, err
	}
	var outs []recvOut
	for i, kind := range w.sc.Plan {
		stt.RealCalls++
		if kind == "msg" {
			want := 0
			if i < len(w.sc.Items) {
				want = w.sc.Items[i].Size
			}
			b, err := recvMsg(ctx, st, w.v.MsgAPI, want)
			if err != nil {
				outs = append(outs, recvOut{err: err.Error()})
				return outs, nil
			}
			outs = append(outs, recvOut{ok: true, data: b})
			continue
		}
		path := filepath.Join(dir, fmt.Sprintf("%s-dst-%d", tag, i+1))
		junk := (w.v.Salt+i)%2 == 1
		if junk {
			// the destination already exists with other content: GetFile "creates" it
			if err := os.WriteFile(path, []byte(junkContent), 0o600); err != nil {
				return nil, err
			}
		}
		n, err := st.GetFile(ctx, path)
		o := recvOut{ok: err == nil, n: n, path: path, junk: junk}
		if err != nil {
			o.err = err.Error()
		}
		if b, rerr := os.ReadFile(path); rerr == nil {
			o.data = b
		} else if err == nil {
			return nil, fmt.Errorf("GetFile succeeded but %s cannot be read: %v", path, rerr)
		}
		outs = append(outs, o)
		if err != nil {
			return outs, nil
		}
	}
	return outs, nil
}

// delivered is the number of payload bytes the wire carries at all.
func (w *world) delivered() int {
	n := 0
	for _, f := range w.sc.Wire {
		n += f.Plen
	}
	return n
}

// compareRecv compares what a real receiver returned with the model.
func (w *world) compareRecv(pass string, outs []recvOut, stt *Stats) *Diff {
	sc := w.sc
	for i, o := range outs {
		if i >= len(sc.Rres) {
			return &Diff{Broken: true, Detail: fmt.Sprintf("pass %s: real receiver performed call %d, the model stopped after %d", pass, i+1, len(sc.Rres))}
		}
		exp := sc.Rres[i]
		action := "GetFile"
		if sc.Plan[i] == "msg" {
			action = "RecvMsg"
		}
		clean := w.cleanUpTo(i)
		switch {
		case exp.OK && o.ok:
			want, err := w.segsBytes(exp.File)
			if err != nil {
				return &Diff{Broken: true, Detail: err.Error()}
			}
			inv := "SuccessIsExact"
			if sc.Plan[i] == "msg" {
				inv = "MessageIsExact"
			}
			if clean {
				inv = "HonestRoundTrip"
			}
			if !bytes.Equal(o.data, want) {
				return w.diff(pass, inv, action, i, "reported success, content differs from what was sent: "+diffAt(o.data, want))
			}
			if sc.Plan[i] == "file" {
				if o.n != int64(exp.N) {
					return w.diff(pass, inv, action, i, fmt.Sprintf("reported success with byte count %d, the file has %d bytes", o.n, exp.N))
				}
				stt.FilesReceived++
				stt.FileBytes += o.n
			}
			if exp.Silent {
				stt.SilentAccepted++
			}
		case exp.OK && !o.ok:
			if exp.Silent {
				stt.SilentRefused++
				return nil // either outcome; the receiver stops here
			}
			inv := "SuccessIsExact"
			if clean {
				inv = "HonestRoundTrip"
			}
			return w.diff(pass, inv, action, i, "the model receives this item, the real call failed: "+o.err)
		case !exp.OK && o.ok:
			return w.unexpectedSuccess(pass, action, i, o, stt)
		default:
			stt.ErrorsAgreed++
			if o.path != "" {
				// no allocation by announcement on disk either
				if fi, err := os.Stat(o.path); err == nil && fi.Size() > int64(w.delivered()) && !(o.junk && string(o.data) == junkContent) {
					return w.diff(pass, "BoundedAlloc", action, i, fmt.Sprintf("failed transfer left a file of %d bytes, only %d payload bytes ever arrived", fi.Size(), w.delivered()))
				}
			}
			return nil // both stop
		}
	}
	if len(outs) < len(sc.Rres) {
		return &Diff{Broken: true, Detail: fmt.Sprintf("pass %s: real receiver stopped after %d calls without error, model has %d", pass, len(outs), len(sc.Rres))}
	}
	return nil
}

// cleanUpTo: items 0..i were performed by an honest sender and arrived whole.
func (w *world) cleanUpTo(i int) bool {
	sc := w.sc
	for j := 0; j <= i; j++ {
		if j >= len(sc.Items) || sc.Items[j].Dev != "none" || j >= len(sc.Sres) || !sc.Sres[j].OK {
			return false
		}
	}
	for _, f := range sc.Wire {
		if f.Item-1 <= i && f.Cut != "none" {
			return false
		}
	}
	return true
}

// unexpectedSuccess classifies a success of the real receiver where the model
// demands an error.
func (w *world) unexpectedSuccess(pass, action string, i int, o recvOut, stt *Stats) *Diff {
	sc := w.sc
	if action == "RecvMsg" {
		return w.diff(pass, "MessageIsExact", action, i, fmt.Sprintf("a message of %d bytes was delivered, the model's receiver fails here", len(o.data)))
	}
	var it Item
	if i < len(sc.Items) {
		it = sc.Items[i]
	} else {
		return w.diff(pass, "CutYieldsError", action, i, fmt.Sprintf("success (%d bytes) for a file the peer never started to send", o.n))
	}
	sent := w.content[i]
	ann := w.announced(i)
	exact := bytes.Equal(o.data, sent) && o.n == int64(len(sent))
	detail := fmt.Sprintf("peer announced %d bytes and sent %d; GetFile reported success with byte count %d and a file of %d bytes", ann, len(sent), o.n, len(o.data))
	switch {
	case !w.arrivedWhole(i):
		return w.diff(pass, "CutYieldsError", action, i, "the connection ended inside this transfer; "+detail)
	case !exact || ann != int64(len(sent)):
		d := w.diff(pass, "SuccessIsExact", action, i, detail)
		// deviations of the pinned tree, recorded as observations
		switch {
		case ann >= 0 && o.n > ann && int64(len(o.data)) == o.n:
			d.Observed = "overshoot: a frame goes past the announced size; all of it is stored and the transfer is reported as a success with more bytes than announced"
		case it.Dev == "negSize" && len(sent) == 0 && o.n == 0 && len(o.data) == 0:
			d.Observed = "negative size: a negative announced size followed by the marker is reported as a successful transfer of 0 bytes"
		}
		return d
	default:
		return w.diff(pass, "DeviationYieldsError", action, i, detail)
	}
}

func (w *world) arrivedWhole(i int) bool {
	if i >= len(w.sc.Sres) || !w.sc.Sres[i].OK {
		return false
	}
	for _, f := range w.sc.Wire {
		if f.Item-1 == i && f.Cut != "none" {
			return false
		}
	}
	return true
}

// ---------------------------------------------------------------------------
// real sender

// limitConn passes budget bytes to the underlying connection, then fails (the
// connection is cut): the write that crosses the budget is delivered partially.
type limitConn struct {
	net.Conn
	mu      sync.Mutex
	budget  int // <0: unlimited
	failed  bool
	onFail  func()
	written int
}

func (c *limitConn) Write(p []byte) (int, error) {
	c.mu.Lock()
	defer c.mu.Unlock()
	if c.failed {
		return 0, io.ErrClosedPipe
	}
	if c.budget < 0 || len(p) <= c.budget-c.written {
		n, err := c.Conn.Write(p)
		c.written += n
		return n, err
	}
	k := c.budget - c.written
	n, _ := c.Conn.Write(p[:k])
	c.written += n
	c.failed = true
	if c.onFail != nil {
		c.onFail()
	}
	return n, io.ErrClosedPipe
}

type sendOut struct {
	ok  bool
	n   int64
	err string
}

func sendMsg(ctx context.Context, st *stream.Stream, api int, b []byte, split bool) error {
	h := len(b) / 2
	switch api {
	case 1:
		if !split {
			st.StartMessage()
			if err := st.WriteMessage(ctx, b); err != nil {
				return err
			}
			return st.EndMessage(ctx)
		}
	case 2:
		m := message.NewMessageForStream(st)
		if split {
			if err := m.PutBytes(ctx, b[:h]); err != nil {
				return err
			}
			if err := m.FlushFrame(ctx, false); err != nil {
				return err
			}
			b = b[h:]
		}
		if err := m.PutBytes(ctx, b); err != nil {
			return err
		}
		return m.FinishMessage(ctx)
	}
	if split {
		if err := st.SendPartialMessage(ctx, b[:h]); err != nil {
			return err
		}
		return st.SendMessage(ctx, b[h:])
	}
	return st.SendMessage(ctx, b)
}

// runSender performs the sender's calls until the first error.
func (w *world) runSender(ctx context.Context, conn net.Conn, dir, tag string, stt *Stats) ([]sendOut, error) {
	st, err := newStream(conn, w.sc.Enc, w.v)
	if err != nil {
		return nil, err
	}
	var outs []sendOut
	for i, it := range w.sc.Items {
		stt.RealCalls++
		if it.Kind == "msg" {
			if err := sendMsg(ctx, st, w.v.MsgAPI, w.content[i], it.Split); err != nil {
				outs = append(outs, sendOut{err: err.Error()})
				return outs, nil
			}
			outs = append(outs, sendOut{ok: true, n: int64(it.Size)})
			continue
		}
		src := filepath.Join(dir, fmt.Sprintf("%s-src-%d", tag, i+1))
		if err := os.WriteFile(src, w.content[i], 0o600); err != nil {
			return nil, err
		}
		n, err := st.PutFile(ctx, src)
		_ = os.Remove(src)
		if err != nil {
			outs = append(outs, sendOut{n: n, err: err.Error()})
			return outs, nil
		}
		stt.FilesSent++
		outs = append(outs, sendOut{ok: true, n: n})
	}
	return outs, nil
}

func (w *world) compareSend(pass string, outs []sendOut) *Diff {
	sc := w.sc
	for i, o := range outs {
		if i >= len(sc.Sres) {
			return &Diff{Broken: true, Detail: fmt.Sprintf("pass %s: real sender performed call %d, the model stopped after %d", pass, i+1, len(sc.Sres))}
		}
		exp := sc.Sres[i]
		action := "PutFile"
		if sc.Items[i].Kind == "msg" {
			action = "SendMsg"
		}
		switch {
		case exp.OK && !o.ok:
			return w.diff(pass, "HonestRoundTrip", action, i, "the sender's call failed on an open connection: "+o.err)
		case !exp.OK && o.ok:
			return w.diff(pass, "CutYieldsError", action, i, fmt.Sprintf("the connection was cut inside this item, the sender reported success (%d bytes)", o.n))
		case exp.OK && sc.Items[i].Kind == "file" && o.n != int64(exp.N):
			return w.diff(pass, "HonestRoundTrip", action, i, fmt.Sprintf("PutFile returned byte count %d for a file of %d bytes", o.n, exp.N))
		case !exp.OK && (o.n < 0 || o.n > int64(sc.Items[i].Size)):
			return w.diff(pass, "CutYieldsError", action, i, fmt.Sprintf("failed PutFile reports %d bytes sent of a file of %d", o.n, sc.Items[i].Size))
		}
	}
	if len(outs) < len(sc.Sres) {
		return &Diff{Broken: true, Detail: fmt.Sprintf("pass %s: real sender stopped after %d calls without error, model has %d", pass, len(outs), len(sc.Sres))}
	}
	return nil
}

// budget is the number of bytes the model's connection carries (-1: no cut).
func (w *world) budget() int {
	cut := w.sc.cutOf() != ""
	if !cut {
		return -1
	}
	n := 0
	for _, f := range w.sc.Wire {
		switch f.Cut {
		case "none":
			n += refcodec.HeaderSize + f.Wlen
		case "hdr":
			return n + 1 + cutPoint(w.v.CutSel, 4)
		case "body":
			if f.Wlen == 0 {
				return n + 1 + cutPoint(w.v.CutSel, 4)
			}
			return n + refcodec.HeaderSize + cutPoint(w.v.CutSel, f.Wlen)
		}
	}
	return n
}

// honestWire evaluates the HonestWire predicate of the specification on the
// bytes a real sender wrote: parsed and opened by the reference codec only.
func (w *world) honestWire(pass string, raw []byte, outs []sendOut, stt *Stats) *Diff {
	frames, _ := refcodec.ParseFrames(raw)
	var op *refcodec.Opener
	if w.sc.Enc {
		op = refcodec.NewOpener(key(w.v), [32]byte{}, [32]byte{})
	}
	type pf struct {
		end   byte
		plain []byte
	}
	var fs []pf
	for k, f := range frames {
		stt.FramesParsed++
		body := f.Body
		if op != nil {
			p, err := op.Open(f)
			if err != nil {
				return w.diff(pass, "HonestWire", "PutFile", w.itemOfFrame(k), fmt.Sprintf("frame %d of the real sender does not open with the reference decryptor: %v", k, err))
			}
			body = p
		}
		fs = append(fs, pf{f.End, body})
	}
	pos := 0
	next := func() (pf, bool) {
		if pos >= len(fs) {
			return pf{}, false
		}
		pos++
		return fs[pos-1], true
	}
	modelMatch := len(fs) <= len(w.sc.Wire)
	for k := range fs {
		if !modelMatch {
			break
		}
		m := w.sc.Wire[k]
		if len(fs[k].plain) != m.Plen || int(fs[k].end) != m.End {
			modelMatch = false
		}
	}
	for i, o := range outs {
		if !o.ok {
			break
		}
		it := w.sc.Items[i]
		bad := func(detail string) *Diff {
			act := "PutFile"
			if it.Kind == "msg" {
				act = "SendMsg"
			}
			return w.diff(pass, "HonestWire", act, i, detail)
		}
		if it.Kind == "msg" {
			var got []byte
			for {
				f, ok := next()
				if !ok {
					return bad("the message's final frame is missing on the wire")
				}
				got = append(got, f.plain...)
				if f.end == 1 {
					break
				}
			}
			if !bytes.Equal(got, w.content[i]) {
				return bad("message content on the wire differs: " + diffAt(got, w.content[i]))
			}
			continue
		}
		f, ok := next()
		if !ok || len(f.plain) != 8 || f.end != 1 {
			return bad(fmt.Sprintf("the first message of a transfer is not one complete 8-byte message (have=%v, %d bytes, end=%d)", ok, len(f.plain), f.end))
		}
		if a := int64(binary.BigEndian.Uint64(f.plain)); a != int64(it.Size) {
			return bad(fmt.Sprintf("announced size %d for a file of %d bytes", a, it.Size))
		}
		var got []byte
		for len(got) < it.Size {
			f, ok := next()
			if !ok {
				return bad(fmt.Sprintf("only %d of %d content bytes on the wire", len(got), it.Size))
			}
			if f.end != 1 {
				return bad("a chunk is not a complete single-frame message (end flag 0)")
			}
			if len(f.plain) == 0 || len(f.plain) > Chunk {
				return bad(fmt.Sprintf("a chunk of %d bytes (must be 1..%d)", len(f.plain), Chunk))
			}
			got = append(got, f.plain...)
		}
		if !bytes.Equal(got, w.content[i]) {
			return bad("file content on the wire differs: " + diffAt(got, w.content[i]))
		}
		f, ok = next()
		if !ok || len(f.plain) != 4 || f.end != 1 || binary.BigEndian.Uint32(f.plain) != 666 {
			return bad(fmt.Sprintf("the transfer does not end with the 4-byte marker 666 (have=%v, % x, end=%d)", ok, f.plain, f.end))
		}
	}
	if modelMatch {
		stt.ModelCutsMatch++
	}
	return nil
}

func (w *world) itemOfFrame(k int) int {
	if k < len(w.sc.Wire) {
		return w.sc.Wire[k].Item - 1
	}
	return len(w.sc.Items) - 1
}

// ---------------------------------------------------------------------------
// passes

// guarded runs f under the watchdog and converts a panic into a Diff.
func (w *world) guarded(pass string, f func() *Diff) (d *Diff) {
	done := make(chan *Diff, 1)
	go func() {
		defer func() {
			if r := recover(); r != nil {
				buf := make([]byte, 2048)
				buf = buf[:runtime.Stack(buf, false)]
				i, _ := w.sc.deviation()
				done <- w.diff(pass, "NoCrash", "GetFile/PutFile", i, fmt.Sprintf("panic: %v\n%s", r, buf))
			}
		}()
		done <- f()
	}()
	select {
	case d := <-done:
		return d
	case <-time.After(Watchdog):
		i, _ := w.sc.deviation()
		return w.diff(pass, "NoHangAfterClose", "GetFile/PutFile", i, fmt.Sprintf("the calls did not return within %s of the connection being closed", Watchdog))
	}
}

func (w *world) feedConn(name string, b []byte) net.Conn {
	if w.v.Dribble > 0 {
		dc := wire.NewDribbleConn(name, w.v.Dribble)
		dc.Feed(b)
		return dc
	}
	bc := wire.NewBufConn(name)
	bc.Feed(b)
	return bc
}

func unread(c net.Conn) int {
	switch x := c.(type) {
	case *wire.BufConn:
		return x.Unread()
	case *wire.DribbleConn:
		return x.Unread()
	}
	return 0
}

var bg = context.Background()

// Run replays one behaviour. nil = the real code conforms.
func Run(sc *Scenario, v Variant, dir string, stt *Stats) *Diff {
	if len(sc.Items) > len(sc.Plan) || len(sc.Sres) > len(sc.Items) || len(sc.Rres) > len(sc.Plan) {
		return &Diff{Broken: true, Detail: "inconsistent scenario"}
	}
	w := newWorld(sc, v)
	if err := os.MkdirAll(dir, 0o700); err != nil {
		return &Diff{Broken: true, Detail: err.Error()}
	}
	defer os.RemoveAll(dir)
	_, dev := sc.deviation()
	fullyClean := dev == "none" && sc.cutOf() == "" && len(sc.Sres) == len(sc.Plan)

	// pass R: reference-built wire -> real receiver
	refRaw, d := w.refWire(stt)
	if d != nil {
		return d
	}
	if d := w.guarded("R", func() *Diff {
		conn := w.feedConn("receiver", refRaw)
		outs, err := w.runReceiver(bg, conn, dir, "R", stt)
		if err != nil {
			return &Diff{Broken: true, Detail: err.Error()}
		}
		if d := w.compareRecv("R", outs, stt); d != nil {
			return d
		}
		if fullyClean && unread(conn) != 0 {
			return w.diff("R", "HonestRoundTrip", "GetFile", len(sc.Plan)-1, fmt.Sprintf("%d bytes of the session were left unread", unread(conn)))
		}
		return nil
	}); d != nil {
		return d
	}
	if dev != "none" {
		return nil // the deviating peer exists only as reference-built frames
	}

	// pass S: real sender into a connection cut where the model cuts
	var realRaw []byte
	var souts []sendOut
	if d := w.guarded("S", func() *Diff {
		bc := wire.NewBufConn("sender")
		lc := &limitConn{Conn: bc, budget: w.budget()}
		outs, err := w.runSender(bg, lc, dir, "S", stt)
		if err != nil {
			return &Diff{Broken: true, Detail: err.Error()}
		}
		souts = outs
		realRaw = bc.TakeOut()
		if d := w.compareSend("S", outs); d != nil {
			return d
		}
		return w.honestWire("S", realRaw, outs, stt)
	}); d != nil {
		return d
	}

	// pass C: real -> real
	if d := w.guarded("C", func() *Diff {
		conn := w.feedConn("receiver", realRaw)
		outs, err := w.runReceiver(bg, conn, dir, "C", stt)
		if err != nil {
			return &Diff{Broken: true, Detail: err.Error()}
		}
		if d := w.compareRecv("C", outs, stt); d != nil {
			return d
		}
		if fullyClean && unread(conn) != 0 {
			return w.diff("C", "HonestRoundTrip", "GetFile", len(sc.Plan)-1, fmt.Sprintf("%d bytes of the session were left unread", unread(conn)))
		}
		return nil
	}); d != nil {
		return d
	}
	_ = souts

	if !v.Pipe {
		return nil
	}
	// pass P: both ends concurrently over a blocking pipe, cancellable context
	return w.guarded("P", func() *Diff {
		stt.PipeRuns++
		a, b := wire.C03NewPipe("10.0.0.1:1111", "10.0.0.2:2222")
		defer a.Close()
		defer b.Close()
		ctx, cancel := context.WithCancel(context.Background())
		defer cancel()
		lc := &limitConn{Conn: a, budget: w.budget(), onFail: a.CloseWrite}
		type sret struct {
			outs []sendOut
			err  error
		}
		ch := make(chan sret, 1)
		go func() {
			defer func() {
				if r := recover(); r != nil {
					ch <- sret{nil, fmt.Errorf("panic in sender: %v", r)}
				}
			}()
			var st Stats
			outs, err := w.runSender(ctx, lc, dir, "P", &st)
			a.CloseWrite() // the sender is done: the receiver sees the end of the connection
			ch <- sret{outs, err}
		}()
		routs, err := w.runReceiver(ctx, b, dir, "P", stt)
		sr := <-ch
		if err != nil || sr.err != nil {
			return &Diff{Broken: true, Detail: fmt.Sprintf("pass P: %v / %v", err, sr.err)}
		}
		if d := w.compareSend("P", sr.outs); d != nil {
			return d
		}
		return w.compareRecv("P", routs, stt)
	})
}

// ---------------------------------------------------------------------------
// allocation probe (run single-threaded by the driver)

// AllocProbe feeds the reference-built wire of a scenario whose peer announces
// far more than it sends to a real GetFile and measures what the call
// allocated. It returns the bytes allocated and the bytes on the wire.
func AllocProbe(sc *Scenario, v Variant, dir string) (allocated uint64, wireBytes int, d *Diff) {
	w := newWorld(sc, v)
	if err := os.MkdirAll(dir, 0o700); err != nil {
		return 0, 0, &Diff{Broken: true, Detail: err.Error()}
	}
	defer os.RemoveAll(dir)
	var st Stats
	raw, d := w.refWire(&st)
	if d != nil {
		return 0, 0, d
	}
	d = w.guarded("A", func() *Diff {
		conn := w.feedConn("receiver", raw)
		runtime.GC()
		var m0, m1 runtime.MemStats
		runtime.ReadMemStats(&m0)
		outs, err := w.runReceiver(bg, conn, dir, "A", &st)
		runtime.ReadMemStats(&m1)
		if err != nil {
			return &Diff{Broken: true, Detail: err.Error()}
		}
		allocated = m1.TotalAlloc - m0.TotalAlloc
		return w.compareRecv("A", outs, &st)
	})
	return allocated, len(raw), d
}

// AllocDiff builds the failure for an allocation proportional to the announcement.
func AllocDiff(sc *Scenario, v Variant, allocated uint64, wireBytes int) *Diff {
	w := newWorld(sc, v)
	i, _ := sc.deviation()
	return w.diff("A", "BoundedAlloc", "GetFile", i, fmt.Sprintf("GetFile allocated %d bytes for a transfer that announced %d bytes and delivered %d bytes on the wire", allocated, w.announced(i), wireBytes))
}

var ErrNotScenario = errors.New("not a FileTransfer scenario")
