package tokreplay

import (
	"bytes"
	"context"
	"encoding/base64"
	"encoding/json"
	"fmt"
	"os"
	"path/filepath"
	"sort"
	"strings"
	"sync"
	"time"

	"cedarverif/internal/refcodec"

	"github.com/bbockelm/cedar/security"
	"github.com/bbockelm/cedar/stream"
)

// ---- scenarios as printed by Gen_TokenAuth -----------------------------------

// Out is the outcome of one model behaviour.
type Out struct {
	C    string `json:"c,omitempty"`    // client: ok | fail | na
	S    string `json:"s,omitempty"`    // server: ok | fail
	User string `json:"user,omitempty"` // identity recorded by the server
	V    string `json:"v,omitempty"`    // standalone verification: accept | reject
}

func (o Out) String() string {
	if o.V != "" {
		return "verify=" + o.V
	}
	s := fmt.Sprintf("client=%s server=%s", o.C, o.S)
	if o.S == "ok" {
		s += " user=" + o.User
	}
	return s
}

// Scn is one scenario: the deviation and the set of outcomes the model allows.
type Scn struct {
	Mode    string `json:"mode"`
	Kind    string `json:"kind"`
	Msg     int    `json:"msg"`
	Pos     string `json:"pos"`
	Via     string `json:"via"`
	Role    string `json:"role"`
	Allowed []Out  `json:"allowed"`
}

func (s *Scn) Key() string {
	return fmt.Sprintf("%s/%s/%d/%s/%s", s.Mode, s.Kind, s.Msg, s.Pos, s.Via)
}

// Expect summarises the allowed set per end.
func (s *Scn) Expect() string {
	if s.Mode == "verify" {
		return oneOf(s.Allowed, func(o Out) string { return o.V }, "accept", "reject")
	}
	return "client:" + oneOf(s.Allowed, func(o Out) string { return o.C }, "ok", "fail") +
		" server:" + oneOf(s.Allowed, func(o Out) string { return o.S }, "ok", "fail")
}

func oneOf(a []Out, f func(Out) string, yes, no string) string {
	set := map[string]bool{}
	for _, o := range a {
		set[f(o)] = true
	}
	switch {
	case set["na"]:
		return "n/a"
	case set[yes] && set[no]:
		return "either"
	case set[yes]:
		return "must-" + map[string]string{"ok": "succeed", "accept": "accept"}[yes]
	default:
		return "must-" + map[string]string{"fail": "fail", "reject": "reject"}[no]
	}
}

// ParseScenarios groups the behaviours printed by TLC by scenario.
func ParseScenarios(raws []json.RawMessage) ([]*Scn, error) {
	idx := map[string]*Scn{}
	var order []string
	for _, r := range raws {
		var w struct {
			Scn struct {
				Scn
				Out Out `json:"out"`
			} `json:"scn"`
		}
		if err := json.Unmarshal(r, &w); err != nil {
			return nil, err
		}
		s := w.Scn.Scn
		k := s.Key()
		cur, ok := idx[k]
		if !ok {
			cp := s
			cur = &cp
			idx[k] = cur
			order = append(order, k)
		}
		dup := false
		for _, o := range cur.Allowed {
			if o == w.Scn.Out {
				dup = true
			}
		}
		if !dup {
			cur.Allowed = append(cur.Allowed, w.Scn.Out)
		}
	}
	sort.Strings(order)
	var out []*Scn
	for _, k := range order {
		sort.Slice(idx[k].Allowed, func(i, j int) bool { return idx[k].Allowed[i].String() < idx[k].Allowed[j].String() })
		out = append(out, idx[k])
	}
	return out, nil
}

// Variant concretises the abstract classes of a scenario.
type Variant struct {
	Idx   int    `json:"idx"`             // position inside the abstract position class / length / offset
	Bit   int    `json:"bit"`             // bit flipped at that position
	Edit  string `json:"edit,omitempty"`  // verify: kind of character edit (flip|del|ins|dot|swap)
	Base  int    `json:"base,omitempty"`  // verify: which base token
	Delta int64  `json:"delta,omitempty"` // time kinds: distance from the boundary in seconds (0 = default)
	Alt   int    `json:"alt,omitempty"`   // which alternative value (status word, identity, key id, trailer)
}

type Job struct {
	Sc *Scn
	V  Variant
}

// ---- fixture -----------------------------------------------------------------

const (
	Domain   = "c11.test"
	AliceSub = "alice@" + Domain
	MaxAge   = 600
)

// Fixture holds the server-side key directories and the raw keys.
type Fixture struct {
	Dir      string // k1=K1 k2=K2 pool=KP
	DirOther string // k1=KX k2=K2 pool=KP   (a server that does not hold alice's key)
	K1, K2   []byte
	KX, KP   []byte
	// frames an on-path party recorded from an honest session after message 3
	// (key-exchange word, post-authentication ad), used to let a client that
	// accepted finish its handshake when the real server did not answer.
	tailOnce sync.Once
	tail     []byte
	tailErr  error
}

func NewFixture(tmp string, rnd func([]byte)) (*Fixture, error) {
	f := &Fixture{Dir: filepath.Join(tmp, "c11keys"), DirOther: filepath.Join(tmp, "c11keys-other")}
	mk := func(n int) []byte { b := make([]byte, n); rnd(b); return b }
	f.K1, f.K2, f.KX, f.KP = mk(32), mk(32), mk(32), mk(64)
	for _, d := range []struct {
		dir string
		k1  []byte
	}{{f.Dir, f.K1}, {f.DirOther, f.KX}} {
		if err := os.MkdirAll(d.dir, 0o700); err != nil {
			return nil, err
		}
		for name, k := range map[string][]byte{"k1": d.k1, "k2": f.K2, "pool": f.KP} {
			if err := os.WriteFile(filepath.Join(d.dir, name), refcodec.C11Scramble(k), 0o600); err != nil {
				return nil, err
			}
		}
	}
	return f, nil
}

// Keys is the reference side's view of the key files in dir.
func (f *Fixture) Keys(other bool) map[string][]byte {
	k1 := f.K1
	if other {
		k1 = f.KX
	}
	// "pool" is also a readable file name inside the directory
	return map[string][]byte{"k1": k1, "k2": f.K2, "POOL": f.KP, "pool": f.KP}
}

func (f *Fixture) serverCfg(other bool) *security.SecurityConfig {
	dir := f.Dir
	if other {
		dir = f.DirOther
	}
	return &security.SecurityConfig{
		AuthMethods: []security.AuthMethod{security.AuthToken}, Authentication: security.SecurityRequired,
		Encryption: security.SecurityNever, Integrity: security.SecurityNever,
		TokenSigningKeyDir: dir, TokenPoolSigningKeyFile: filepath.Join(dir, "pool"),
		TrustDomain: Domain, TokenMaxAge: MaxAge, Command: security.NoCommand,
		SessionCache: security.NewSessionCache(),
	}
}

func clientCfg(token string) *security.SecurityConfig {
	return &security.SecurityConfig{
		AuthMethods: []security.AuthMethod{security.AuthToken}, Authentication: security.SecurityRequired,
		Encryption: security.SecurityNever, Integrity: security.SecurityNever,
		Token: token, Command: security.NoCommand, SessionCache: security.NewSessionCache(),
	}
}

// ---- one exchange through the relay ----------------------------------------------

// Obs is what one real exchange showed.
type Obs struct {
	C, S      string // ok | fail
	User      string // SecurityNegotiation.User on the server
	CErr      string
	SErr      string
	M3Status  *int64 // status word of message 3 as the real client sent it (nil: none seen)
	SawHasKey bool   // the real server sent its post-authentication key-exchange word
	Injected  bool
	Note      string
	Dead      bool // watchdog fired
	// honest proofs checked by the reference implementation
	RefChecked int
	RefBad     string
	// recorded for replays
	m2raw, m3raw []byte
	tail         []byte
}

type relay struct {
	f    *Fixture
	sc   *Scn
	v    Variant
	obs  *Obs
	base string // the honest client's full token
	// insider / forger knowledge
	insTok string // full token the insider presents
	insID  string
	old    *Obs // session 0 (replay kinds)
	m1     refcodec.C11Msg1
	m2sent refcodec.C11Msg2
	m2ok   bool
	after3 int
	tailIn []byte // frames to inject when a client that accepted is left waiting
}

func splitTok(t string) (si string, sig []byte) {
	i := strings.LastIndexByte(t, '.')
	if i < 0 {
		return t, nil
	}
	sig, _ = base64.RawURLEncoding.DecodeString(t[i+1:])
	return t[:i], sig
}

func macHash(n int) refcodec.C11MacHash {
	if n == 32 {
		return refcodec.C11MacSHA256
	}
	return refcodec.C11MacSHA1
}

func flip(b []byte, i, bit int) []byte {
	o := append([]byte{}, b...)
	if len(o) > 0 {
		o[i%len(o)] ^= 1 << (uint(bit) % 8)
	}
	return o
}

// posIndex maps the abstract position class and the variant index to a
// concrete index in [0,n).
func posIndex(pos string, n, idx int) int {
	if n <= 0 {
		return 0
	}
	switch pos {
	case "first":
		return 0
	case "last":
		return n - 1
	default:
		if n <= 2 {
			return idx % n
		}
		return 1 + (idx % (n - 2))
	}
}

// PosSpace is the number of concrete members of a position class.
func PosSpace(pos string, n int) int {
	if pos == "mid" {
		if n <= 2 {
			return n
		}
		return n - 2
	}
	return 1
}

var statusAlts = map[string][]int64{
	"status_err":   {-1},
	"status_abort": {1},
	"status_other": {7, 2, -2, 255, 1 << 31, -1 << 31, 1 << 40},
}

var identityAlts = []string{"mallory@" + Domain, "alice@evil.test", "alicf@" + Domain, "root@" + Domain, "alice", "Alice@" + Domain}

func pick[T any](a []T, i int) T { return a[((i%len(a))+len(a))%len(a)] }

