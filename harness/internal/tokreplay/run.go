package tokreplay

import (
	"bytes"
	"context"
	"encoding/base64"
	"encoding/json"
	"fmt"
	"os"
	"path/filepath"
	"sort"
	"strings"
	"sync"
	"time"

	"cedarverif/internal/refcodec"

	"github.com/bbockelm/cedar/security"
	"github.com/bbockelm/cedar/stream"
)

// ---- scenarios as printed by Gen_TokenAuth -----------------------------------

// Out is the outcome of one model behaviour.
type Out struct {
	C    string `json:"c,omitempty"`    // client: ok | fail | na
	S    string `json:"s,omitempty"`    // server: ok | fail
	User string `json:"user,omitempty"` // identity recorded by the server
	V    string `json:"v,omitempty"`    // standalone verification: accept | reject
}

func (o Out) String() string {
	if o.V != "" {
		return "verify=" + o.V
	}
	s := fmt.Sprintf("client=%s server=%s", o.C, o.S)
	if o.S == "ok" {
		s += " user=" + o.User
	}
	return s
}

// Scn is one scenario: the deviation and the set of outcomes the model allows.
type Scn struct {
	Mode    string `json:"mode"`
	Kind    string `json:"kind"`
	Msg     int    `json:"msg"`
	Pos     string `json:"pos"`
	Via     string `json:"via"`
	Role    string `json:"role"`
	Allowed []Out  `json:"allowed"`
}

func (s *Scn) Key() string {
	return fmt.Sprintf("%s/%s/%d/%s/%s", s.Mode, s.Kind, s.Msg, s.Pos, s.Via)
}

// Expect summarises the allowed set per end.
func (s *Scn) Expect() string {
	if s.Mode == "verify" {
		return oneOf(s.Allowed, func(o Out) string { return o.V }, "accept", "reject")
	}
	return "client:" + oneOf(s.Allowed, func(o Out) string { return o.C }, "ok", "fail") +
		" server:" + oneOf(s.Allowed, func(o Out) string { return o.S }, "ok", "fail")
}

func oneOf(a []Out, f func(Out) string, yes, no string) string {
	set := map[string]bool{}
	for _, o := range a {
		set[f(o)] = true
	}
	switch {
	case set["na"]:
		return "n/a"
	case set[yes] && set[no]:
		return "either"
	case set[yes]:
		return "must-" + map[string]string{"ok": "succeed", "accept": "accept"}[yes]
	default:
		return "must-" + map[string]string{"fail": "fail", "reject": "reject"}[no]
	}
}

// ParseScenarios groups the behaviours printed by TLC by scenario.
func ParseScenarios(raws []json.RawMessage) ([]*Scn, error) {
	idx := map[string]*Scn{}
	var order []string
	for _, r := range raws {
		var w struct {
			Scn struct {
				Scn
				Out Out `json:"out"`
			} `json:"scn"`
		}
		if err := json.Unmarshal(r, &w); err != nil {
			return nil, err
		}
		s := w.Scn.Scn
		k := s.Key()
		cur, ok := idx[k]
		if !ok {
			cp := s
			cur = &cp
			idx[k] = cur
			order = append(order, k)
		}
		dup := false
		for _, o := range cur.Allowed {
			if o == w.Scn.Out {
				dup = true
			}
		}
		if !dup {
			cur.Allowed = append(cur.Allowed, w.Scn.Out)
		}
	}
	sort.Strings(order)
	var out []*Scn
	for _, k := range order {
		sort.Slice(idx[k].Allowed, func(i, j int) bool { return idx[k].Allowed[i].String() < idx[k].Allowed[j].String() })
		out = append(out, idx[k])
	}
	return out, nil
}

// Variant concretises the abstract classes of a scenario.
type Variant struct {
	Idx   int    `json:"idx"`             // position inside the abstract position class / length / offset
	Bit   int    `json:"bit"`             // bit flipped at that position
	Edit  string `json:"edit,omitempty"`  // verify: kind of character edit (flip|del|ins|dot|swap)
	Base  int    `json:"base,omitempty"`  // verify: which base token
	Delta int64  `json:"delta,omitempty"` // time kinds: distance from the boundary in seconds (0 = default)
	Alt   int    `json:"alt,omitempty"`   // which alternative value (status word, identity, key id, trailer)
}

type Job struct {
	Sc *Scn
	V  Variant
}

// ---- fixture -----------------------------------------------------------------

const (
	Domain   = "c11.test"
	AliceSub = "alice@" + Domain
	MaxAge   = 600
)

// Fixture holds the server-side key directories and the raw keys.
type Fixture struct {
	Dir      string // k1=K1 k2=K2 pool=KP
	DirOther string // k1=KX k2=K2 pool=KP   (a server that does not hold alice's key)
	K1, K2   []byte
	KX, KP   []byte
	// frames an on-path party recorded from an honest session after message 3
	// (key-exchange word, post-authentication ad), used to let a client that
	// accepted finish its handshake when the real server did not answer.
	tailOnce sync.Once
	tail     []byte
	tailErr  error
	// lengths of the three authentication messages and of the token segments
	// in the honest run (sizes of the concrete position spaces)
	MsgLen [4]int
	SegLen [3]int
	MacLen int
}

func NewFixture(tmp string, rnd func([]byte)) (*Fixture, error) {
	f := &Fixture{Dir: filepath.Join(tmp, "c11keys"), DirOther: filepath.Join(tmp, "c11keys-other")}
	mk := func(n int) []byte { b := make([]byte, n); rnd(b); return b }
	f.K1, f.K2, f.KX, f.KP = mk(32), mk(32), mk(32), mk(64)
	// Files the server does NOT hold as signing keys but a crafted kid can reach:
	// SIBLING directories whose names merely extend the key directory's name,
	// an unrelated directory, a directory whose name is a proper prefix of it;
	// and, inside the key directory, a nested file and a name containing "..".
	root := tmp
	for _, e := range []struct{ rel string }{
		{"c11keys.old/stale"}, {"c11keys-backup/stale"}, {"c11keys~/stale"}, {"c11keys.d/k1"},
		{"unrelated/file"}, {"c11/file"},
		{"c11keys/sub/inner"}, {"c11keys/k1..bak"},
	} {
		pth := filepath.Join(root, e.rel)
		if err := os.MkdirAll(filepath.Dir(pth), 0o700); err != nil {
			return nil, err
		}
		if err := os.WriteFile(pth, refcodec.C11Scramble(mk(32)), 0o600); err != nil {
			return nil, err
		}
	}
	for _, d := range []struct {
		dir string
		k1  []byte
	}{{f.Dir, f.K1}, {f.DirOther, f.KX}} {
		if err := os.MkdirAll(d.dir, 0o700); err != nil {
			return nil, err
		}
		for name, k := range map[string][]byte{"k1": d.k1, "k2": f.K2, "pool": f.KP} {
			if err := os.WriteFile(filepath.Join(d.dir, name), refcodec.C11Scramble(k), 0o600); err != nil {
				return nil, err
			}
		}
	}
	return f, nil
}

// Keys is the reference side's view of the key files in dir.
func (f *Fixture) Keys(other bool) map[string][]byte {
	k1 := f.K1
	if other {
		k1 = f.KX
	}
	// "pool" is also a readable file name inside the directory
	return map[string][]byte{"k1": k1, "k2": f.K2, "POOL": f.KP, "pool": f.KP}
}

func (f *Fixture) serverCfg(other bool) *security.SecurityConfig {
	dir := f.Dir
	if other {
		dir = f.DirOther
	}
	return &security.SecurityConfig{
		AuthMethods: []security.AuthMethod{security.AuthToken}, Authentication: security.SecurityRequired,
		Encryption: security.SecurityNever, Integrity: security.SecurityNever,
		TokenSigningKeyDir: dir, TokenPoolSigningKeyFile: filepath.Join(dir, "pool"),
		TrustDomain: Domain, TokenMaxAge: MaxAge, Command: security.NoCommand,
		SessionCache: security.NewSessionCache(),
	}
}

func clientCfg(token string) *security.SecurityConfig {
	return &security.SecurityConfig{
		AuthMethods: []security.AuthMethod{security.AuthToken}, Authentication: security.SecurityRequired,
		Encryption: security.SecurityNever, Integrity: security.SecurityNever,
		Token: token, Command: security.NoCommand, SessionCache: security.NewSessionCache(),
	}
}

// ---- one exchange through the relay ----------------------------------------------

// Obs is what one real exchange showed.
type Obs struct {
	C, S      string // ok | fail
	User      string // SecurityNegotiation.User on the server
	CErr      string
	SErr      string
	M3Status  *int64 // status word of message 3 as the real client sent it (nil: none seen)
	SawHasKey bool   // the real server sent its post-authentication key-exchange word
	Injected  bool
	Note      string
	Dead      bool // watchdog fired
	// honest proofs checked by the reference implementation
	RefChecked int
	RefBad     string
	// recorded for replays
	m2raw, m3raw []byte
	tail         []byte
}

type relay struct {
	f         *Fixture
	sc        *Scn
	v         Variant
	obs       *Obs
	clientTok string            // the token the real client is configured with
	keys      map[string][]byte // the keys the real server holds (reference view)
	minted    map[string]string // header.payload texts minted by the harness -> kid
	// insider / forger knowledge
	insTok string // full token the insider presents
	insID  string
	old    *Obs // session 0 (replay kinds)
	m1     refcodec.C11Msg1
	m2sent refcodec.C11Msg2
	m2ok   bool
	tailIn []byte // frames to inject when a client that accepted is left waiting
	m1len  int
}

func splitTok(t string) (si string, sig []byte) {
	i := strings.LastIndexByte(t, '.')
	if i < 0 {
		return t, nil
	}
	sig, _ = base64.RawURLEncoding.DecodeString(t[i+1:])
	return t[:i], sig
}

func macHash(n int) refcodec.C11MacHash {
	if n == 32 {
		return refcodec.C11MacSHA256
	}
	return refcodec.C11MacSHA1
}

func flip(b []byte, i, bit int) []byte {
	o := append([]byte{}, b...)
	if len(o) > 0 {
		o[i%len(o)] ^= 1 << (uint(bit) % 8)
	}
	return o
}

// posIndex maps the abstract position class and the variant index to a
// concrete index in [0,n).
func posIndex(pos string, n, idx int) int {
	if n <= 0 {
		return 0
	}
	switch pos {
	case "first":
		return 0
	case "last":
		return n - 1
	default:
		if n <= 2 {
			return idx % n
		}
		return 1 + (idx % (n - 2))
	}
}

// PosSpace is the number of concrete members of a position class.
func PosSpace(pos string, n int) int {
	if pos == "mid" {
		if n <= 2 {
			return n
		}
		return n - 2
	}
	return 1
}

var statusAlts = map[string][]int64{
	"status_err":   {-1},
	"status_abort": {1},
	"status_other": {7, 2, -2, 255, 1 << 31, -1 << 31, 1 << 40},
}

var identityAlts = []string{"mallory@" + Domain, "alice@evil.test", "alicf@" + Domain, "root@" + Domain, "alice", "Alice@" + Domain}

func pick[T any](a []T, i int) T { return a[((i%len(a))+len(a))%len(a)] }

func trailer(alt int) []byte {
	switch ((alt % 4) + 4) % 4 {
	case 0:
		return []byte{0}
	case 1:
		return make([]byte, 8)
	case 2:
		return []byte("X")
	default:
		return bytes.Repeat([]byte{0xA5}, 100)
	}
}

// editSeg flips one bit of one character of segment seg (0 header, 1 payload,
// 2 signature) of a dot-separated token text.
func editSeg(tok string, seg int, pos string, v Variant) string {
	parts := strings.Split(tok, ".")
	if seg >= len(parts) || len(parts[seg]) == 0 {
		return tok
	}
	b := []byte(parts[seg])
	i := posIndex(pos, len(b), v.Idx)
	if p := strings.IndexByte(b64alpha, b[i]); v.Edit == "sub" && p >= 0 {
		// another character of the alphabet: the text stays well-formed base64url
		b[i] = b64alpha[(p+1+v.Bit%63)%64]
	} else {
		b = flip(b, i, v.Bit)
	}
	parts[seg] = string(b)
	return strings.Join(parts, ".")
}

func (r *relay) onMessage(from, idx int, body []byte) (fwd, back [][]byte) {
	sc := r.sc
	pass := [][]byte{body}
	switch {
	case from == Cli && idx == 2: // message 1
		m, err := refcodec.C11ParseMsg1(body)
		r.m1len = len(body)
		regular := err == nil && m.Status == refcodec.C11StatusOK
		if !regular {
			r.obs.Note += "client sent no regular message 1; "
		}
		r.m1 = m
		if sc.Via == "insider" {
			si, _ := splitTok(r.insTok)
			ra := m.RA
			if len(ra) == 0 {
				ra = bytes.Repeat([]byte{0x5A}, refcodec.C11NonceLen)
			}
			r.m1 = refcodec.C11Msg1{Status: 0, A: r.insID, Token: si, RA: ra}
			return [][]byte{r.m1.Encode()}, nil
		}
		if sc.Msg != 1 || !regular {
			return pass, nil
		}
		out := r.dev1(m, body)
		if pm, err := refcodec.C11ParseMsg1(out); err == nil {
			r.m1 = pm
		} else {
			r.m1 = refcodec.C11Msg1{Status: -99}
		}
		return [][]byte{out}, nil

	case from == Srv && idx == 2: // message 2
		r.obs.m2raw = append([]byte{}, body...)
		m, err := refcodec.C11ParseMsg2(body)
		r.m2sent, r.m2ok = m, err == nil && m.Status == refcodec.C11StatusOK
		if r.m2ok {
			r.refCheck2(m)
		}
		if sc.Via == "insider" {
			// the insider answers message 2 itself; the real client is a bystander
			m3 := refcodec.C11Msg3{Status: refcodec.C11StatusError}
			if r.m2ok {
				si, sig := splitTok(r.insTok)
				k := refcodec.C11DeriveKeys(sig, si)
				m3 = refcodec.C11Msg3{Status: 0, A: r.insID, RB: m.RB, Mac: refcodec.C11Mac3(macHash(len(m.Mac)), k.K, r.insID, m.RB)}
			}
			return pass, [][]byte{m3.Encode()}
		}
		if sc.Msg != 2 || !r.m2ok {
			return pass, nil
		}
		return [][]byte{r.dev2(m, body)}, nil

	case from == Cli && idx == 3: // message 3 (or the client's give-up word)
		r.obs.m3raw = append([]byte{}, body...)
		m, err := refcodec.C11ParseMsg3(body)
		if err == nil {
			st := m.Status
			r.obs.M3Status = &st
		}
		if sc.Via == "insider" {
			return nil, nil // the insider already answered
		}
		regular := err == nil && m.Status == refcodec.C11StatusOK
		if regular {
			r.refCheck3(m)
		}
		if sc.Msg != 3 || !regular {
			return pass, nil
		}
		return [][]byte{r.dev3(m, body)}, nil

	case from == Cli && idx > 3 && sc.Via == "insider":
		return nil, nil

	case from == Srv && (idx == 3 || idx == 4):
		if idx == 3 && len(body) == 8 {
			r.obs.SawHasKey = true
		}
		r.obs.tail = append(r.obs.tail, refcodec.Frame{End: 1, Body: body}.Encode()...)
		return pass, nil
	}
	return pass, nil
}

// refCheck2: an honest server's proof is recomputed by the reference from the
// signature the server must derive for the token text it received.
func (r *relay) refCheck2(m refcodec.C11Msg2) {
	sig, ok := r.srvSig(r.m1.Token)
	if !ok || r.m1.Status != 0 {
		return
	}
	k := refcodec.C11DeriveKeys(sig, r.m1.Token)
	want := refcodec.C11Mac2(macHash(len(m.Mac)), k.K, m.A, m.B, m.RA, m.RB)
	r.obs.RefChecked++
	if !bytes.Equal(want, m.Mac) {
		r.obs.RefBad += fmt.Sprintf("server proof in message 2 differs from the reference computation (len %d); ", len(m.Mac))
	}
}

// refCheck3: an honest client's proof is recomputed from the credential it was
// configured with and the nonce it was handed.
func (r *relay) refCheck3(m refcodec.C11Msg3) {
	si, sig := splitTok(r.clientTok)
	if len(sig) == 0 || strings.Count(r.clientTok, ".") != 2 {
		return
	}
	k := refcodec.C11DeriveKeys(sig, si)
	want := refcodec.C11Mac3(macHash(len(m.Mac)), k.K, m.A, m.RB)
	r.obs.RefChecked++
	if !bytes.Equal(want, m.Mac) {
		r.obs.RefBad += fmt.Sprintf("client proof in message 3 differs from the reference computation (len %d); ", len(m.Mac))
	}
}

// srvSig: the signature a server holding r.keys derives for a token text the
// harness minted (kid read from the harness's own records, not parsed).
func (r *relay) srvSig(si string) ([]byte, bool) {
	kid, ok := r.minted[si]
	if !ok {
		return nil, false
	}
	key, ok := r.keys[kid]
	if !ok {
		return nil, false
	}
	return refcodec.C11TokenSig(key, kid, si), true
}

func (r *relay) junkKey() []byte { return bytes.Repeat([]byte{0x42}, 32) }

func (r *relay) dev1(m refcodec.C11Msg1, body []byte) []byte {
	sc, v := r.sc, r.v
	switch sc.Kind {
	case "tok_hdr":
		m.Token = editSeg(m.Token, 0, sc.Pos, v)
	case "tok_pay":
		m.Token = editSeg(m.Token, 1, sc.Pos, v)
	case "tok_pay_sub":
		parts := strings.Split(m.Token, ".")
		if len(parts) == 2 {
			if pj, err := base64.RawURLEncoding.DecodeString(parts[1]); err == nil {
				q, _ := json.Marshal(pick(identityAlts, v.Alt))
				old, _ := json.Marshal(AliceSub)
				parts[1] = refcodec.C11B64(bytes.Replace(pj, old, q, 1))
				m.Token = strings.Join(parts, ".")
			}
		}
	case "claim_m1":
		m.A = pick(identityAlts, v.Alt)
	case "status_err", "status_abort", "status_other":
		m.Status = pick(statusAlts[sc.Kind], v.Alt)
	case "trail":
		m.Trail = trailer(v.Alt)
	case "cut":
		return body[:((v.Idx%len(body))+len(body))%len(body)]
	case "nonce_wrong":
		m.RA = flip(m.RA, posIndex(sc.Pos, len(m.RA), v.Idx), v.Bit)
	case "nonce_trunc":
		m.RA = m.RA[:1+v.Idx%(len(m.RA)-1)]
	case "nonce_empty":
		m.RA = nil
	default:
		return body
	}
	return m.Encode()
}

func macEdit(kind, pos string, v Variant, mac []byte) ([]byte, bool) {
	switch kind {
	case "mac_wrong":
		return flip(mac, posIndex(pos, len(mac), v.Idx), v.Bit), true
	case "mac_trunc":
		if len(mac) < 2 {
			return nil, true
		}
		return mac[:1+v.Idx%(len(mac)-1)], true
	case "mac_long":
		n := []int{1, 12, 44}[((v.Alt%3)+3)%3]
		return append(append([]byte{}, mac...), make([]byte, n)...), true
	case "mac_empty":
		return nil, true
	}
	return mac, false
}

func nonceEdit(kind, pos string, v Variant, n []byte) ([]byte, bool) {
	switch kind {
	case "echo_wrong", "nonce_wrong":
		return flip(n, posIndex(pos, len(n), v.Idx), v.Bit), true
	case "echo_trunc", "nonce_trunc":
		if len(n) < 2 {
			return nil, true
		}
		return n[:1+v.Idx%(len(n)-1)], true
	case "echo_empty", "nonce_empty":
		return nil, true
	}
	return n, false
}

func (r *relay) dev2(m refcodec.C11Msg2, body []byte) []byte {
	sc, v := r.sc, r.v
	if mac, ok := macEdit(sc.Kind, sc.Pos, v, m.Mac); ok {
		m.Mac = mac
		return m.Encode()
	}
	switch sc.Kind {
	case "echo_a":
		m.A = pick(identityAlts, v.Alt)
	case "server_id":
		m.B = pick([]string{"server@evil.test", "server@" + Domain + "x", "", "alice@" + Domain}, v.Alt)
	case "status_err", "status_abort", "status_other":
		m.Status = pick(statusAlts[sc.Kind], v.Alt)
	case "trail":
		m.Trail = trailer(v.Alt)
	case "cut":
		return body[:((v.Idx%len(body))+len(body))%len(body)]
	case "replay_msg":
		if r.old != nil && len(r.old.m2raw) > 0 {
			return r.old.m2raw
		}
	case "replay_mac":
		if r.old != nil {
			if om, err := refcodec.C11ParseMsg2(r.old.m2raw); err == nil {
				m.Mac = om.Mac
			}
		}
	case "replay_proof":
		if r.old != nil {
			if om, err := refcodec.C11ParseMsg2(r.old.m2raw); err == nil {
				m.RB, m.Mac = om.RB, om.Mac
			}
		}
	case "forge":
		m.Mac = refcodec.C11Mac2(macHash(len(m.Mac)), r.junkKey(), m.A, m.B, m.RA, m.RB)
	case "echo_wrong", "echo_trunc", "echo_empty":
		m.RA, _ = nonceEdit(sc.Kind, sc.Pos, v, m.RA)
	case "nonce_wrong", "nonce_trunc", "nonce_empty":
		m.RB, _ = nonceEdit(sc.Kind, sc.Pos, v, m.RB)
	default:
		return body
	}
	return m.Encode()
}

func (r *relay) dev3(m refcodec.C11Msg3, body []byte) []byte {
	sc, v := r.sc, r.v
	if mac, ok := macEdit(sc.Kind, sc.Pos, v, m.Mac); ok {
		m.Mac = mac
		return m.Encode()
	}
	switch sc.Kind {
	case "claim_m3":
		m.A = pick(identityAlts, v.Alt)
	case "status_err", "status_abort", "status_other":
		m.Status = pick(statusAlts[sc.Kind], v.Alt)
	case "trail":
		m.Trail = trailer(v.Alt)
	case "cut":
		return body[:((v.Idx%len(body))+len(body))%len(body)]
	case "replay_msg":
		if r.old != nil && len(r.old.m3raw) > 0 {
			return r.old.m3raw
		}
	case "replay_mac":
		if r.old != nil {
			if om, err := refcodec.C11ParseMsg3(r.old.m3raw); err == nil {
				m.Mac = om.Mac
			}
		}
	case "reflect":
		m.Mac = r.m2sent.Mac
	case "forge":
		m.Mac = refcodec.C11Mac3(macHash(len(m.Mac)), r.junkKey(), m.A, m.RB)
	case "echo_wrong", "echo_trunc", "echo_empty":
		m.RB, _ = nonceEdit(sc.Kind, sc.Pos, v, m.RB)
	default:
		return body
	}
	return m.Encode()
}

func (r *relay) onStall() (toCli, toSrv []byte) {
	if r.sc.Via == "insider" {
		return nil, nil
	}
	o := r.obs
	if !o.Injected && o.M3Status != nil && *o.M3Status == refcodec.C11StatusOK && !o.SawHasKey && len(r.tailIn) > 0 {
		// The real client told its peer "OK" in message 3 and now waits for the
		// rest of the handshake, but the real server did not accept. An on-path
		// party supplies the (cleartext, recorded) remainder, so that the client's
		// own verdict on the token exchange becomes its handshake result.
		o.Injected = true
		return r.tailIn, nil
	}
	return nil, nil
}

// exchange runs one real handshake (client configured with clientTok against a
// server reading f.Dir or f.DirOther) through the relay.
func (f *Fixture) exchange(r *relay, otherSrv bool) *Obs {
	obs := &Obs{}
	r.obs = obs
	r.f = f
	r.keys = f.Keys(otherSrv)
	n := NewNet()
	n.OnMessage = r.onMessage
	n.OnStall = r.onStall
	ccfg, scfg := clientCfg(r.clientTok), f.serverCfg(otherSrv)
	cs, ss := stream.NewStream(n.Conn(Cli)), stream.NewStream(n.Conn(Srv))
	ca, sa := security.NewAuthenticator(ccfg, cs), security.NewAuthenticator(scfg, ss)
	ctx, cancel := context.WithCancel(context.Background())
	defer cancel()
	wd := time.AfterFunc(30*time.Second, func() { obs.Dead = true; n.Abort() })
	defer wd.Stop()
	var wg sync.WaitGroup
	var sneg *security.SecurityNegotiation
	var serr, cerr error
	wg.Add(2)
	go func() {
		defer wg.Done()
		defer n.Finish(Srv)
		defer func() {
			if p := recover(); p != nil {
				serr = fmt.Errorf("panic: %v", p)
			}
		}()
		sneg, serr = sa.ServerHandshake(ctx)
	}()
	go func() {
		defer wg.Done()
		defer n.Finish(Cli)
		defer func() {
			if p := recover(); p != nil {
				cerr = fmt.Errorf("panic: %v", p)
			}
		}()
		_, cerr = ca.ClientHandshake(ctx)
	}()
	wg.Wait()
	obs.C, obs.S = "ok", "ok"
	if cerr != nil {
		obs.C, obs.CErr = "fail", cerr.Error()
	}
	if serr != nil {
		obs.S, obs.SErr = "fail", serr.Error()
	} else if sneg != nil {
		obs.User = sneg.User
		if !sneg.Authentication || sneg.NegotiatedAuth != security.AuthToken {
			obs.Note += fmt.Sprintf("server handshake returned without TOKEN authentication (auth=%v method=%s); ", sneg.Authentication, sneg.NegotiatedAuth)
		}
	}
	return obs
}

// Tail returns the frames an honest server sends after message 3.
func (f *Fixture) Tail() ([]byte, error) {
	f.tailOnce.Do(func() {
		now := time.Now().Unix()
		tok := refcodec.C11MintToken(f.K1, refcodec.C11Claims{Kid: "k1", Sub: AliceSub, Iss: Domain, Iat: now - 5, Exp: now + 600, Jti: "tail"})
		r := &relay{sc: &Scn{Mode: "exchange", Kind: "none"}, clientTok: tok, minted: map[string]string{}}
		o := f.exchange(r, false)
		if o.C != "ok" || o.S != "ok" || !o.SawHasKey || len(o.tail) == 0 {
			f.tailErr = fmt.Errorf("honest exchange did not complete: client %q server %q", o.CErr, o.SErr)
			return
		}
		f.tail = o.tail
		f.MsgLen = [4]int{0, r.m1len, len(o.m2raw), len(o.m3raw)}
		for i, p := range strings.Split(tok, ".") {
			if i < 3 {
				f.SegLen[i] = len(p)
			}
		}
		f.MacLen = len(r.m2sent.Mac)
	})
	return f.tail, f.tailErr
}

// Concrete describes what a job did, for failure reports.
type Concrete struct {
	Kind      string `json:"kind"` // effective scenario kind after classification of the concrete edit
	ClientTok string `json:"client_token,omitempty"`
	Presented string `json:"presented_token,omitempty"`
	Identity  string `json:"identity,omitempty"`
	OtherSrv  bool   `json:"server_holds_other_key,omitempty"`
	Token     string `json:"token,omitempty"`
}

func delta(v Variant, def int64) int64 {
	if v.Delta >= 5 {
		return v.Delta
	}
	return def
}

// timeClaims gives the claims of the time-deviation kinds relative to now.
func timeClaims(kind string, v Variant, now int64) (refcodec.C11Claims, bool) {
	c := refcodec.C11Claims{Kid: "k1", Sub: AliceSub, Iss: Domain, Iat: now - 5, Exp: now + 600, Jti: fmt.Sprintf("t%d", v.Idx)}
	switch strings.TrimPrefix(kind, "v_") {
	case "exp_past":
		c.Iat, c.Exp = now-300, now-delta(v, 10)
		if c.Exp < c.Iat {
			c.NoIat = true // isolate the expiry: no issue time at all
		}
	case "exp_now":
		c.Exp = now
	case "exp_near":
		c.Exp = now + delta(v, 60)
	case "iat_old":
		c.Iat = now - MaxAge - delta(v, 10)
	case "iat_limit":
		c.Iat = now - MaxAge
	case "iat_near":
		c.Iat = now - MaxAge + delta(v, 60)
	case "iat_future":
		c.Iat = now + delta(v, 60)
		c.Exp = c.Iat + 600
	case "time_both_bad":
		c.Iat, c.Exp = now-MaxAge-delta(v, 10), now-delta(v, 10)
	case "no_exp":
		c.NoExp = true
	case "no_iat":
		c.NoIat = true
	case "nbf_future":
		c.Nbf = now + delta(v, 60)
	default:
		return c, false
	}
	// other spellings of the same numbers (fraction, exponent form) and
	// unrelated extra claims must not change the verdict
	switch ((v.Alt % 4) + 4) % 4 {
	case 1:
		if !c.NoExp {
			c.ExpText = fmt.Sprintf("%d.75", c.Exp-1)
		}
		if !c.NoIat {
			c.IatText = fmt.Sprintf("%d.25", c.Iat)
		}
	case 2:
		c.Extra = `"scope":"condor:/READ condor:/WRITE","aud":["a","b"],"exp2":1`
	case 3:
		if !c.NoExp {
			c.ExpText = fmt.Sprintf("%d.0e0", c.Exp)
		}
	}
	return c, true
}

var unknownKids = []string{"k9", "K1", "k1.bak", "k1 ", "k3"}

// KidAlt is one concrete key id of a path shape: the text, and the file whose
// bytes the presenter of the token knows ("" = Key is given directly).
type KidAlt struct {
	Kid  string
	File string // path (lexically resolved) of the file the kid reaches
	Key  []byte // used when File == ""
}

// KidAlts lists the concrete key ids of an abstract shape of TokenAuth.tla
// (ForeignKids, SilentKids, PoolKids) for the key directory f.Dir.
func (f *Fixture) KidAlts(shape string) []KidAlt {
	name := filepath.Base(f.Dir) // "c11keys"
	parent := filepath.Dir(f.Dir)
	lex := func(kids ...string) []KidAlt { // the file <keydir>/<kid> resolves to, lexically
		var out []KidAlt
		for _, k := range kids {
			out = append(out, KidAlt{Kid: k, File: filepath.Clean(f.Dir + "/" + k)})
		}
		return out
	}
	switch shape {
	case "up_sibling":
		return lex("../"+name+".old/stale", "../"+name+"-backup/stale", "../"+name+"~/stale", "../"+name+"-other/k1",
			"../"+name+".d/k1", "./../"+name+".old/stale", "sub/../../"+name+".old/stale",
			"../"+name+".old/../"+name+"-backup/stale", "..//"+name+".old//stale", "k1/../../"+name+"~/stale",
			"../"+name+".old/./stale", "../"+name+"/../"+name+".old/stale")
	case "up_unrelated":
		return lex("../unrelated/file", "../c11/file", "../../"+filepath.Base(parent)+"/unrelated/file",
			"../unrelated/../unrelated/file", "sub/../../unrelated/file", "./../c11/file")
	case "abs_out":
		return []KidAlt{
			{Kid: filepath.Join(parent, "unrelated/file"), File: filepath.Join(parent, "unrelated/file")},
			{Kid: filepath.Join(parent, name+".old/stale"), File: filepath.Join(parent, name+".old/stale")},
			{Kid: "/" + filepath.Join(parent, name+"-backup/stale"), File: filepath.Join(parent, name+"-backup/stale")},
		}
	case "backslash":
		return []KidAlt{
			{Kid: `..\` + name + `.old\stale`, File: filepath.Join(parent, name+".old/stale")},
			{Kid: `k1\`, Key: f.K1}, {Kid: `.\k1`, Key: f.K1},
			{Kid: `sub\inner`, File: filepath.Join(f.Dir, "sub/inner")},
			{Kid: `..\` + name + `\k1`, Key: f.K1},
		}
	case "up_back_in":
		return lex("../"+name+"/k1", "sub/../k1", "../"+name+"/./k2", "./sub/../k2", "../"+name+"/sub/../k1")
	case "dot_k1":
		return []KidAlt{{Kid: "./k1", Key: f.K1}, {Kid: "k1/", Key: f.K1}, {Kid: "././k1", Key: f.K1},
			{Kid: ".//k1", Key: f.K1}, {Kid: "k1/.", Key: f.K1}, {Kid: "./k2", Key: f.K2}}
	case "sub_inner":
		return lex("sub/inner", "./sub/inner", "sub//inner", "sub/./inner")
	case "dotdot_name":
		return lex("k1..bak")
	case "nul":
		return []KidAlt{{Kid: "k1\x00", Key: f.K1}, {Kid: "k1\x00.old", Key: f.K1},
			{Kid: "k1\x00/../../" + name + ".old/stale", Key: f.K1}, {Kid: "k2\x00k1", Key: f.K2}}
	case "empty":
		return []KidAlt{{Kid: "", Key: f.KP}}
	case "POOL":
		return []KidAlt{{Kid: "POOL", Key: f.KP}}
	}
	return nil
}

// forgerKey: the presenter knows the bytes of the file the kid reaches and
// undoes the on-disk scrambling the way the reference describes it.
func (a KidAlt) forgerKey() ([]byte, error) {
	if a.File == "" {
		return a.Key, nil
	}
	b, err := os.ReadFile(a.File)
	if err != nil {
		return nil, err
	}
	return refcodec.C11Scramble(b), nil
}

// silentKids maps the statement-silent spellings to the key they reach (for the oracle).
func (f *Fixture) silentKids() map[string][]byte {
	m := map[string][]byte{}
	for _, sh := range []string{"up_back_in", "dot_k1", "sub_inner", "dotdot_name", "nul"} {
		for _, a := range f.KidAlts(sh) {
			if k, err := a.forgerKey(); err == nil {
				m[a.Kid] = k
			}
		}
	}
	return m
}

const MallorySub = "mallory@" + Domain

const b64alpha = "ABCDEFGHIJKLMNOPQRSTUVWXYZabcdefghijklmnopqrstuvwxyz0123456789-_"

// sameSigRespell changes the spelling of the signature without changing the
// bytes a lenient base64url decoder yields: the last character of a 43-character
// signature carries two unused bits.
func sameSigRespell(tok string, alt int) string {
	i := len(tok) - 1
	p := strings.IndexByte(b64alpha, tok[i])
	if p < 0 {
		return tok
	}
	return tok[:i] + string(b64alpha[p^(1+((alt%3)+3)%3)])
}

func sigBytes(tok string) ([]byte, error) {
	i := strings.LastIndexByte(tok, '.')
	return base64.RawURLEncoding.DecodeString(tok[i+1:])
}

// Model gives access to all scenarios (for re-classification of concrete edits).
type Model map[string]*Scn

func (m Model) Find(mode, kind string, msg int, pos, via string) *Scn {
	return m[(&Scn{Mode: mode, Kind: kind, Msg: msg, Pos: pos, Via: via}).Key()]
}

// Run replays one exchange scenario against the real endpoints.
func Run(f *Fixture, model Model, sc *Scn, v Variant) (*Obs, *Scn, Concrete, error) {
	tail, err := f.Tail()
	if err != nil {
		return nil, sc, Concrete{}, err
	}
	now := time.Now().Unix()
	baseC := refcodec.C11Claims{Kid: "k1", Sub: AliceSub, Iss: Domain, Iat: now - 5, Exp: now + 600, Jti: fmt.Sprintf("j%d-%d", v.Idx, v.Bit)}
	baseKey := f.K1
	// the honest credential may be issued under any key the server holds (only for
	// deviations that do not themselves depend on which key that is)
	if sc.Via == "wire" || sc.Kind == "none" || sc.Kind == "claim_all" ||
		sc.Kind == "tok_hdr" || sc.Kind == "tok_pay" || sc.Kind == "tok_sig" || sc.Kind == "tok_sig_same" {
		switch ((v.Base % 3) + 3) % 3 {
		case 1:
			baseC.Kid, baseKey = "k2", f.K2
		case 2:
			baseC.Kid, baseKey = "POOL", f.KP
		}
	}
	base := refcodec.C11MintToken(baseKey, baseC)
	r := &relay{sc: sc, v: v, clientTok: base, tailIn: tail, minted: map[string]string{}}
	note := func(tok, kid string) { si, _ := splitTok(tok); r.minted[si] = kid }
	note(base, baseC.Kid)
	other := false
	eff := sc
	conc := Concrete{Kind: sc.Kind}
	present := func(tok string) {
		if sc.Via == "insider" {
			r.insTok, r.insID = tok, AliceSub
			conc.Presented = tok
		} else {
			r.clientTok = tok
		}
	}
	switch sc.Kind {
	case "tok_hdr":
		if sc.Via == "config" {
			r.clientTok = editSeg(base, 0, sc.Pos, v)
		}
	case "tok_pay":
		if sc.Via == "config" {
			r.clientTok = editSeg(base, 1, sc.Pos, v)
		}
	case "tok_sig":
		r.clientTok = editSeg(base, 2, sc.Pos, v)
		was, _ := sigBytes(base)
		if got, err := sigBytes(r.clientTok); err == nil && bytes.Equal(got, was) {
			// the edit changed the spelling, not the signature
			if alt := model.Find("exchange", "tok_sig_same", 0, "last", "config"); alt != nil {
				eff = alt
			}
		}
	case "tok_sig_same":
		r.clientTok = sameSigRespell(base, v.Alt)
	case "tok_otherkey":
		r.clientTok = refcodec.C11MintToken(f.K2, baseC)
	case "tok_unknownkid":
		c := baseC
		c.Kid = pick(unknownKids, v.Alt)
		r.clientTok = refcodec.C11MintToken(f.KX, c)
	case "srv_otherkey":
		other = true
	case "kid_path":
		alts := f.KidAlts(sc.Pos)
		if len(alts) == 0 {
			return nil, sc, conc, fmt.Errorf("no concrete key id for shape %q", sc.Pos)
		}
		a := pick(alts, v.Alt)
		key, err := a.forgerKey()
		if err != nil {
			return nil, sc, conc, fmt.Errorf("kid shape %s: %v", sc.Pos, err)
		}
		c := baseC
		c.Kid, c.Sub = a.Kid, MallorySub
		t := refcodec.C11MintToken(key, c)
		conc.Identity = fmt.Sprintf("kid=%q reaches %q", a.Kid, a.File)
		if sc.Via == "insider" {
			r.insTok, r.insID = t, MallorySub
			conc.Presented = t
		} else {
			r.clientTok = t
		}
	case "claim_all":
		r.insTok, r.insID = base, pick(identityAlts, v.Alt)
		conc.Identity = r.insID
	case "replay_msg", "replay_mac", "replay_proof":
		r0 := &relay{sc: &Scn{Mode: "exchange", Kind: "none"}, clientTok: base, minted: r.minted}
		r.old = f.exchange(r0, false)
		if r.old.C != "ok" || r.old.S != "ok" {
			return nil, sc, conc, fmt.Errorf("earlier honest session failed: client %q server %q", r.old.CErr, r.old.SErr)
		}
	default:
		if c, ok := timeClaims(sc.Kind, v, now); ok {
			t := refcodec.C11MintToken(f.K1, c)
			note(t, "k1")
			present(t)
		}
	}
	conc.Kind = eff.Kind
	conc.OtherSrv = other
	if r.clientTok != base {
		conc.ClientTok = r.clientTok
	}
	obs := f.exchange(r, other)
	if sc.Via == "insider" {
		obs.C = "na"
	}
	return obs, eff, conc, nil
}

// userMatches: the server records the user part of the subject
// (SecurityNegotiation.User); the model's "alice" is AliceSub.
func userMatches(model, got string) bool {
	sub := map[string]string{"alice": AliceSub, "mallory": "mallory@" + Domain}[model]
	if sub == "" {
		return false
	}
	return got == sub || got == strings.SplitN(sub, "@", 2)[0]
}

// Conforms reports whether the observation is one of the outcomes the model
// allows for the scenario.
func Conforms(sc *Scn, o *Obs) bool {
	for _, a := range sc.Allowed {
		if a.S != o.S {
			continue
		}
		if a.C != "na" && o.C != "na" && a.C != o.C {
			continue
		}
		if a.S == "ok" && !userMatches(a.User, o.User) {
			continue
		}
		return true
	}
	return false
}

func (o *Obs) Out() Out { return Out{C: o.C, S: o.S, User: o.User} }

// ---- standalone verification ------------------------------------------------------

// VerifyResult is one call of the real VerifyIDToken.
type VerifyResult struct {
	Got     string // accept | reject
	Err     string
	Subject string
	Oracle  refcodec.C11Verdict
	Skip    bool // the concrete edit did not change the token
}

func editChar(tok string, seg int, pos string, v Variant) string {
	parts := strings.Split(tok, ".")
	b := []byte(parts[seg])
	if len(b) == 0 {
		return tok
	}
	i := posIndex(pos, len(b), v.Idx)
	switch v.Edit {
	case "del":
		b = append(b[:i:i], b[i+1:]...)
	case "ins":
		c := b64alpha[(v.Bit*7+i)%64]
		b = append(b[:i:i], append([]byte{c}, b[i:]...)...)
	case "dot":
		b[i] = '.'
	case "swap":
		j := (i + 1) % len(b)
		b[i], b[j] = b[j], b[i]
	case "sub":
		p := strings.IndexByte(b64alpha, b[i])
		b[i] = b64alpha[(p+1+v.Bit%63)%64]
	default: // flip
		b[i] ^= 1 << (uint(v.Bit) % 8)
	}
	parts[seg] = string(b)
	return strings.Join(parts, ".")
}

// BaseTokens: the honest tokens the verification variants start from.
func (f *Fixture) baseToken(i int, now int64, jti string) (string, string) {
	c := refcodec.C11Claims{Sub: AliceSub, Iss: Domain, Iat: now - 5, Exp: now + 600, Jti: jti}
	switch ((i % 4) + 4) % 4 {
	case 1:
		c.Kid, c.Sub = "k2", "bob@"+Domain
		return refcodec.C11MintToken(f.K2, c), c.Sub
	case 2:
		c.Kid = "POOL"
		return refcodec.C11MintToken(f.KP, c), c.Sub
	case 3:
		c.NoKid = true
		return refcodec.C11MintToken(f.KP, c), c.Sub
	default:
		c.Kid = "k1"
		return refcodec.C11MintToken(f.K1, c), c.Sub
	}
}

// RunVerify calls the real standalone verifier on the concrete token of a
// verification scenario.
func RunVerify(f *Fixture, model Model, sc *Scn, v Variant) (VerifyResult, *Scn, Concrete) {
	now := time.Now().Unix()
	jti := fmt.Sprintf("v%d-%d-%s", v.Idx, v.Bit, v.Edit)
	other := false
	eff := sc
	var tok string
	base, _ := f.baseToken(v.Base, now, jti)
	switch sc.Kind {
	case "v_none":
		tok = base
	case "v_pool":
		tok, _ = f.baseToken(2+v.Base%2, now, jti)
	case "v_otherkey":
		tok = refcodec.C11MintToken(f.K2, refcodec.C11Claims{Kid: "k1", Sub: AliceSub, Iss: Domain, Iat: now - 5, Exp: now + 600, Jti: jti})
		if v.Alt%2 == 1 {
			tok = refcodec.C11MintToken(f.K1, refcodec.C11Claims{Kid: "k2", Sub: AliceSub, Iss: Domain, Iat: now - 5, Exp: now + 600, Jti: jti})
		}
	case "v_unknownkid":
		// signed with a key nobody holds, or with a key the server holds under ANOTHER name:
		// the signature must verify under the NAMED key, and there is none
		tok = refcodec.C11MintToken(pick([][]byte{f.KX, f.K1, f.K2}, v.Idx), refcodec.C11Claims{Kid: pick(unknownKids, v.Alt), Sub: AliceSub, Iss: Domain, Iat: now - 5, Exp: now + 600, Jti: jti})
	case "v_srv_otherkey":
		tok, _ = f.baseToken(0, now, jti)
		other = true
	case "v_kid_path":
		alts := f.KidAlts(sc.Pos)
		if len(alts) == 0 {
			return VerifyResult{Skip: true}, sc, Concrete{}
		}
		a := pick(alts, v.Alt)
		key, err := a.forgerKey()
		if err != nil {
			return VerifyResult{Skip: true}, sc, Concrete{}
		}
		tok = refcodec.C11MintToken(key, refcodec.C11Claims{Kid: a.Kid, Sub: MallorySub, Iss: Domain, Iat: now - 5, Exp: now + 600, Jti: jti})
	case "v_sig_same":
		tok = sameSigRespell(base, v.Alt)
		if v.Alt >= 3 {
			i := strings.LastIndexByte(base, '.') + 1 + v.Idx%40
			tok = base[:i] + pick([]string{"\n", "\r", "\r\n"}, v.Alt) + base[i:]
		}
	case "v_space":
		tok = pick([]string{" %s", "%s\n", "\t%s ", "\n%s\r\n"}, v.Alt)
		tok = fmt.Sprintf(tok, base)
	case "v_hdr", "v_pay", "v_sig":
		seg := map[string]int{"v_hdr": 0, "v_pay": 1, "v_sig": 2}[sc.Kind]
		tok = editChar(base, seg, sc.Pos, v)
		if tok == base {
			return VerifyResult{Skip: true}, sc, Concrete{}
		}
		if sc.Kind == "v_sig" && strings.Count(tok, ".") == 2 {
			was, _ := sigBytes(base)
			if got, err := sigBytes(tok); err == nil && bytes.Equal(got, was) {
				if alt := model.Find("verify", "v_sig_same", 0, "-", "verify"); alt != nil {
					eff = alt
				}
			}
		}
	default:
		c, ok := timeClaims(sc.Kind, v, now)
		if !ok {
			return VerifyResult{Skip: true}, sc, Concrete{}
		}
		tok = refcodec.C11MintToken(f.K1, c)
	}
	cfg := f.serverCfg(other)
	res := VerifyResult{Oracle: refcodec.C11VerifyOracleSoft(tok, f.Keys(other), f.silentKids(), now, MaxAge, 5)}
	func() {
		defer func() {
			if p := recover(); p != nil {
				res.Got, res.Err = "panic", fmt.Sprint(p)
			}
		}()
		claims, err := security.VerifyIDToken(tok, cfg)
		if err != nil {
			res.Got, res.Err = "reject", err.Error()
		} else {
			res.Got = "accept"
			if claims != nil {
				res.Subject = claims.Subject
			}
		}
	}()
	return res, eff, Concrete{Kind: eff.Kind, Token: tok, OtherSrv: other}
}

// VerifyConforms: the result must be allowed by the model's scenario AND by the
// reference oracle (both derive from the statement; they must not contradict).
func VerifyConforms(sc *Scn, r VerifyResult) (ok bool, oracleContradictsModel bool) {
	allowed := map[string]bool{}
	for _, a := range sc.Allowed {
		allowed[a.V] = true
	}
	if r.Oracle.Want != "either" && !allowed[r.Oracle.Want] {
		return false, true
	}
	if !allowed[r.Got] {
		return false, false
	}
	if r.Oracle.Want != "either" && r.Oracle.Want != r.Got {
		return false, false
	}
	if r.Got == "accept" && r.Oracle.Sub != "" && r.Subject != r.Oracle.Sub {
		return false, false
	}
	return true, false
}
