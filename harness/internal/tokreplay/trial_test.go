package tokreplay

import (
	"encoding/json"
	"fmt"
	"io"
	"log/slog"
	"math/rand"
	"os"
	"strings"
	"testing"
)

// development aid: go test -run TestTrial with C11_GEN pointing at a file of
// behaviours printed by TLC.
func TestTrial(t *testing.T) {
	p := os.Getenv("C11_GEN")
	if p == "" {
		t.Skip("no C11_GEN")
	}
	slog.SetDefault(slog.New(slog.NewTextHandler(io.Discard, nil)))
	b, _ := os.ReadFile(p)
	var raws []json.RawMessage
	for _, l := range strings.Split(string(b), "\n") {
		if l == "" {
			continue
		}
		var s string
		if json.Unmarshal([]byte(l), &s) == nil {
			raws = append(raws, json.RawMessage(s))
		}
	}
	scs, err := ParseScenarios(raws)
	if err != nil {
		t.Fatal(err)
	}
	rng := rand.New(rand.NewSource(1))
	f, err := NewFixture(t.TempDir(), func(b []byte) { rng.Read(b) })
	if err != nil {
		t.Fatal(err)
	}
	model := Model{}
	for _, s := range scs {
		model[s.Key()] = s
	}
	old := os.Stdout
	null, _ := os.Open(os.DevNull)
	for _, sc := range scs {
		v := Variant{Idx: rng.Intn(1000), Bit: rng.Intn(8), Alt: rng.Intn(5), Edit: "flip"}
		if sc.Mode == "verify" {
			r, eff, conc := RunVerify(f, model, sc, v)
			ok, contra := VerifyConforms(eff, r)
			fmt.Fprintf(old, "%-40s %-8s got=%-7s oracle=%-7s(%s) ok=%v contra=%v %s\n", sc.Key(), eff.Expect(), r.Got, r.Oracle.Want, r.Oracle.Why, ok, contra, conc.Kind)
			continue
		}
		os.Stdout = null
		o, eff, _, err := Run(f, model, sc, v)
		os.Stdout = old
		if err != nil {
			t.Fatal(err)
		}
		fmt.Printf("%-40s %-45s got: %-34s conf=%v inj=%v ref=%d %s %s\n", sc.Key(), eff.Expect(), o.Out().String(), Conforms(eff, o), o.Injected, o.RefChecked, o.RefBad, o.Note)
		if !Conforms(eff, o) || o.Dead {
			fmt.Printf("     cerr=%s\n     serr=%s\n", o.CErr, o.SErr)
		}
	}
}
