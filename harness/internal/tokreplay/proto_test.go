package tokreplay

import (
	"context"
	"fmt"
	"os"
	"path/filepath"
	"testing"
	"time"

	"cedarverif/internal/refcodec"

	"github.com/bbockelm/cedar/security"
	"github.com/bbockelm/cedar/stream"
)

func TestProto(t *testing.T) {
	dir := t.TempDir()
	key := []byte("0123456789abcdef0123456789abcdef")
	os.WriteFile(filepath.Join(dir, "k1"), refcodec.C11Scramble(key), 0o600)
	now := time.Now().Unix()
	tok := refcodec.C11MintToken(key, refcodec.C11Claims{Kid: "k1", Sub: "alice@c11.test", Iss: "c11.test", Iat: now - 5, Exp: now + 600, Jti: "abc"})
	fmt.Println(tok)
	n := NewNet()
	n.OnMessage = func(from, idx int, body []byte) [][]byte {
		fmt.Printf("msg from=%d idx=%d len=%d\n", from, idx, len(body))
		if from == Cli && idx == 2 {
			m, err := refcodec.C11ParseMsg1(body)
			fmt.Printf("  m1 %v status=%d A=%q tok=%d ra=%d trail=%d\n", err, m.Status, m.A, len(m.Token), len(m.RA), len(m.Trail))
		}
		if from == Srv && idx == 2 {
			m, err := refcodec.C11ParseMsg2(body)
			fmt.Printf("  m2 %v status=%d A=%q B=%q ra=%d rb=%d mac=%d trail=%d\n", err, m.Status, m.A, m.B, len(m.RA), len(m.RB), len(m.Mac), len(m.Trail))
		}
		if from == Cli && idx == 3 {
			m, err := refcodec.C11ParseMsg3(body)
			fmt.Printf("  m3 %v status=%d A=%q rb=%d mac=%d trail=%d\n", err, m.Status, m.A, len(m.RB), len(m.Mac), len(m.Trail))
		}
		return [][]byte{body}
	}
	ccfg := &security.SecurityConfig{AuthMethods: []security.AuthMethod{security.AuthToken}, Authentication: security.SecurityRequired,
		Encryption: security.SecurityNever, Integrity: security.SecurityNever, Token: tok, Command: security.NoCommand, SessionCache: security.NewSessionCache()}
	scfg := &security.SecurityConfig{AuthMethods: []security.AuthMethod{security.AuthToken}, Authentication: security.SecurityRequired,
		Encryption: security.SecurityNever, Integrity: security.SecurityNever, TokenSigningKeyDir: dir, TrustDomain: "c11.test", TokenMaxAge: 600, Command: security.NoCommand, SessionCache: security.NewSessionCache()}
	cs, ss := stream.NewStream(n.Conn(Cli)), stream.NewStream(n.Conn(Srv))
	ca, sa := security.NewAuthenticator(ccfg, cs), security.NewAuthenticator(scfg, ss)
	done := make(chan struct{})
	var sneg *security.SecurityNegotiation
	var serr error
	go func() {
		sneg, serr = sa.ServerHandshake(context.Background())
		n.Finish(Srv)
		close(done)
	}()
	cneg, cerr := ca.ClientHandshake(context.Background())
	n.Finish(Cli)
	<-done
	fmt.Println("client:", cerr, "server:", serr)
	if cneg != nil {
		fmt.Printf("cneg auth=%v enc=%v user=%q method=%s encrypted=%v\n", cneg.Authentication, cneg.Encryption, cneg.User, cneg.NegotiatedAuth, cs.IsEncrypted())
	}
	if sneg != nil {
		fmt.Printf("sneg auth=%v enc=%v user=%q method=%s encrypted=%v\n", sneg.Authentication, sneg.Encryption, sneg.User, sneg.NegotiatedAuth, ss.IsEncrypted())
	}
}
