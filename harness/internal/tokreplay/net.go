// Package tokreplay binds TokenAuth.tla to the real code (property C11): two
// REAL cedar endpoints (client and server Authenticator, method list [TOKEN],
// no encryption) talk through a message-aware relay that realises the single
// deviation of a TLC-generated scenario, and the standalone verifier is called
// on model-classified token variants.
package tokreplay

import (
	"bytes"
	"io"
	"net"
	"sync"
	"time"

	"cedarverif/internal/refcodec"
)

// Side indices.
const (
	Cli = 0
	Srv = 1
)

// Net is a pair of blocking in-memory connections joined by a relay that sees
// whole CEDAR messages (sequences of frames ending with the end flag). It
// detects quiescence (both endpoints blocked in Read, or finished, with
// nothing in flight) without any timer: the relay's OnStall hook may then
// inject bytes; otherwise both sides read EOF.
type Net struct {
	mu   sync.Mutex
	cond *sync.Cond
	ep   [2]*Endpoint
	// OnMessage is called with the lock held for every complete message sent
	// by `from` (idx counts that side's messages from 0). It returns the
	// message bodies to deliver to the peer instead (nil = drop) and bodies to
	// send back to the sender (a relay that answers by itself); each returned
	// body is sent as one end-of-message frame.
	OnMessage func(from, idx int, body []byte) (fwd, back [][]byte)
	// OnStall is called with the lock held when nothing can make progress; it
	// returns bytes to feed to each side (nil, nil = give up and close).
	OnStall func() (toCli, toSrv []byte)
	stalls  int
}

type Endpoint struct {
	n       *Net
	side    int
	in      bytes.Buffer
	pend    []byte // written bytes not yet forming a complete frame
	msg     []byte // bodies of the frames of the message being assembled
	nmsg    int
	reading bool
	done    bool
	closed  bool
}

func NewNet() *Net {
	n := &Net{}
	n.cond = sync.NewCond(&n.mu)
	for i := range n.ep {
		n.ep[i] = &Endpoint{n: n, side: i}
	}
	return n
}

func (n *Net) Conn(side int) net.Conn { return n.ep[side] }

// Finish tells the net that the goroutine driving `side` has returned.
func (n *Net) Finish(side int) {
	n.mu.Lock()
	n.ep[side].done = true
	n.cond.Broadcast()
	n.mu.Unlock()
}

// Abort closes both sides (watchdog).
func (n *Net) Abort() {
	n.mu.Lock()
	n.ep[0].closed, n.ep[1].closed = true, true
	n.cond.Broadcast()
	n.mu.Unlock()
}

// Feed appends raw bytes to a side's inbound buffer (lock must be held).
func (n *Net) feed(side int, b []byte) {
	if len(b) > 0 {
		n.ep[side].in.Write(b)
	}
}

func (e *Endpoint) peer() *Endpoint { return e.n.ep[1-e.side] }

func (e *Endpoint) Write(p []byte) (int, error) {
	n := e.n
	n.mu.Lock()
	defer n.mu.Unlock()
	if e.closed {
		// the peer is gone; an on-path attacker can always swallow bytes
		return len(p), nil
	}
	e.pend = append(e.pend, p...)
	frames, rest := refcodec.ParseFrames(e.pend)
	e.pend = append([]byte(nil), rest...)
	for _, f := range frames {
		e.msg = append(e.msg, f.Body...)
		if f.End == 0 {
			continue
		}
		body := e.msg
		e.msg = nil
		idx := e.nmsg
		e.nmsg++
		out := [][]byte{body}
		var back [][]byte
		if n.OnMessage != nil {
			out, back = n.OnMessage(e.side, idx, body)
		}
		for _, b := range out {
			n.feed(1-e.side, refcodec.Frame{End: 1, Body: b}.Encode())
		}
		for _, b := range back {
			n.feed(e.side, refcodec.Frame{End: 1, Body: b}.Encode())
		}
	}
	n.cond.Broadcast()
	return len(p), nil
}

func (e *Endpoint) Read(p []byte) (int, error) {
	n := e.n
	n.mu.Lock()
	defer n.mu.Unlock()
	for {
		if e.in.Len() > 0 {
			e.reading = false
			return e.in.Read(p)
		}
		if e.closed {
			e.reading = false
			return 0, io.EOF
		}
		e.reading = true
		o := e.peer()
		if o.done || o.closed || (o.reading && o.in.Len() == 0) {
			// nothing can arrive any more unless the relay injects something
			var a, b []byte
			if n.OnStall != nil && n.stalls < 8 {
				n.stalls++
				a, b = n.OnStall()
			}
			if len(a) == 0 && len(b) == 0 {
				e.closed, o.closed = true, true
				n.cond.Broadcast()
				continue
			}
			n.feed(Cli, a)
			n.feed(Srv, b)
			n.cond.Broadcast()
			continue
		}
		n.cond.Wait()
	}
}

func (e *Endpoint) Close() error {
	n := e.n
	n.mu.Lock()
	e.closed = true
	n.cond.Broadcast()
	n.mu.Unlock()
	return nil
}

type memAddr string

func (a memAddr) Network() string { return "mem" }
func (a memAddr) String() string  { return string(a) }

func (e *Endpoint) LocalAddr() net.Addr {
	if e.side == Cli {
		return memAddr("127.0.0.1:40001")
	}
	return memAddr("127.0.0.1:9618")
}
func (e *Endpoint) RemoteAddr() net.Addr {
	if e.side == Cli {
		return memAddr("127.0.0.1:9618")
	}
	return memAddr("127.0.0.1:40001")
}
func (e *Endpoint) SetDeadline(time.Time) error      { return nil }
func (e *Endpoint) SetReadDeadline(time.Time) error  { return nil }
func (e *Endpoint) SetWriteDeadline(time.Time) error { return nil }
