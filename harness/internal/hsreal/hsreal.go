// Package hsreal runs REAL cedar handshakes: a real client Authenticator and a
// real server Authenticator joined by an in-memory link with a frame-aware
// relay in the middle (internal/wire C04Relay; a no-op relay for honest runs).
// It is the binding of spec/Handshake.tla to the code for properties C10 and
// C04: the drivers translate a model configuration / behaviour into a Config and
// a relay action, call Run, and compare the projection returned here with what
// the model allows.
package hsreal

import (
	"context"
	"crypto/sha256"
	"encoding/hex"
	"errors"
	"fmt"
	"io"
	"log/slog"
	"net"
	"os"
	"path/filepath"
	"strings"
	"sync/atomic"
	"time"

	"github.com/bbockelm/cedar/security"
	"github.com/bbockelm/cedar/stream"

	"cedarverif/internal/wire"
)

func init() {
	// cedar logs every handshake step through slog's default logger.
	slog.SetDefault(slog.New(slog.DiscardHandler))
}

// Command used when a configuration "carries a command" (DC_NOP).
const CommandPresent = 60011

// End is one endpoint's policy with CONCRETE method / cipher names.
type End struct {
	Auth    string   `json:"auth"`
	Enc     string   `json:"enc"`
	Methods []string `json:"methods"`
	Ciphers []string `json:"ciphers"`
}

// Config is one handshake configuration.
type Config struct {
	C   End  `json:"c"`
	S   End  `json:"s"`
	Cmd bool `json:"cmd"` // command present (DC_NOP) or auth-only
}

// Env holds the TOKEN credentials shared by all runs: a pool signing key on the
// server side and a JWT signed with it on the client side.
type Env struct {
	Dir         string
	PoolKeyFile string
	KeyDir      string
	Token       string
	TrustDomain string
}

// NewEnv creates the signing key and token below dir.
func NewEnv(dir string) (*Env, error) {
	keyDir := filepath.Join(dir, "hs-keys")
	if err := os.MkdirAll(keyDir, 0o700); err != nil {
		return nil, err
	}
	pool := filepath.Join(keyDir, "POOL")
	if err := security.GeneratePoolSigningKey(pool); err != nil {
		return nil, err
	}
	now := time.Now()
	tok, err := security.GenerateJWT(keyDir, "POOL", "verif@cedar.test", "cedar.test",
		now.Add(-time.Minute).Unix(), now.Add(24*time.Hour).Unix(), nil)
	if err != nil {
		return nil, err
	}
	return &Env{Dir: dir, PoolKeyFile: pool, KeyDir: keyDir, Token: tok, TrustDomain: "cedar.test"}, nil
}

// Opts controls one run.
type Opts struct {
	Relay       wire.C04Action
	Timeout     time.Duration          // whole run (handshake + application exchange); default 2 s
	ClientCache *security.SessionCache // nil: a fresh private cache (no resumption possible)
	KeepSession bool                   // keep the server's session in the global cache (for a later resumption)
	NoApp       bool                   // skip the application exchange
}

// Side is the projection of one endpoint's result.
type Side struct {
	OK        bool   `json:"ok"`
	Err       string `json:"err,omitempty"`
	Auth      bool   `json:"auth"`
	Enc       bool   `json:"enc"`
	Method    string `json:"method"`
	Sid       string `json:"sid,omitempty"`
	User      string `json:"user,omitempty"`
	Resumed   bool   `json:"resumed"`
	KeyHash   string `json:"key,omitempty"` // SHA-256 prefix of the shared secret ("" if none)
	StreamEnc bool   `json:"stream_enc"`    // Stream.IsEncrypted() after the handshake
	// error classification for DenialIsExplicit
	BareClose bool `json:"bare_close,omitempty"` // the error is an EOF / closed connection / deadline
	TimedOut  bool `json:"timed_out,omitempty"`
	// application exchange
	AppSent     bool   `json:"app_sent"`
	AppAccepted bool   `json:"app_accepted"` // a complete application message was returned without error
	AppIntact   bool   `json:"app_intact"`   // ... and it is byte-identical to what the peer sent
	AppErr      string `json:"app_err,omitempty"`
	AppTimedOut bool   `json:"app_timed_out,omitempty"` // the application exchange ran into the deadline

	key []byte
}

// Key returns the shared secret the side reported (nil if none).
func (s *Side) Key() []byte { return s.key }

// Result is what one run produced.
type Result struct {
	C, S     Side
	C2S, S2C wire.C04DirLog
	Order    []string
	Acted    bool
	WallMS   int64
}

var runSerial int64

func levels(s string) security.SecurityLevel { return security.SecurityLevel(s) }

func (e *Env) secConfig(end End, cmd bool, client bool) *security.SecurityConfig {
	cfg := &security.SecurityConfig{
		Authentication: levels(end.Auth),
		Encryption:     levels(end.Enc),
		Integrity:      security.SecurityOptional,
		TrustDomain:    e.TrustDomain,
		Command:        security.NoCommand,
	}
	for _, m := range end.Methods {
		cfg.AuthMethods = append(cfg.AuthMethods, security.AuthMethod(m))
	}
	for _, m := range end.Ciphers {
		cfg.CryptoMethods = append(cfg.CryptoMethods, security.CryptoMethod(m))
	}
	if cmd {
		cfg.Command = CommandPresent
	}
	if client {
		cfg.Token = e.Token
	} else {
		cfg.TokenPoolSigningKeyFile = e.PoolKeyFile
		cfg.TokenSigningKeyDir = e.KeyDir
	}
	return cfg
}

func project(neg *security.SecurityNegotiation, err error, st *stream.Stream, side *Side) {
	side.StreamEnc = st.IsEncrypted()
	if err != nil {
		side.Err = err.Error()
		side.TimedOut = errors.Is(err, context.DeadlineExceeded) || errors.Is(err, os.ErrDeadlineExceeded)
		side.BareClose = side.TimedOut || errors.Is(err, io.EOF) || errors.Is(err, io.ErrUnexpectedEOF) ||
			errors.Is(err, io.ErrClosedPipe) || errors.Is(err, net.ErrClosed)
		return
	}
	if neg == nil {
		side.Err = "nil negotiation without error"
		return
	}
	side.OK = true
	side.Auth = neg.Authentication
	side.Enc = neg.Encryption
	side.Method = string(neg.NegotiatedAuth)
	side.Sid = neg.SessionId
	side.User = neg.User
	side.Resumed = neg.SessionResumed
	if k := neg.GetSharedSecret(); len(k) > 0 {
		h := sha256.Sum256(k)
		side.KeyHash = hex.EncodeToString(h[:8])
		side.key = append([]byte(nil), k...)
	}
}

// AppPayload is the application message a side sends after the handshake.
func AppPayload(role string, serial int64) []byte {
	return []byte(fmt.Sprintf("app-message from %s #%d %s", role, serial, strings.Repeat("x", 23)))
}

// Run performs one handshake between two real endpoints and, unless NoApp, lets
// every endpoint whose handshake succeeded send one application message and
// try to receive one.
func Run(env *Env, cfg Config, o Opts) *Result {
	t0 := time.Now()
	if o.Timeout == 0 {
		o.Timeout = 2 * time.Second
	}
	serial := atomic.AddInt64(&runSerial, 1)
	// fixed addresses: the client files its session under the server's address
	cConn, sConn, relay := wire.NewC04Link("10.1.0.2:40000", "10.1.0.1:9618", o.Relay)
	res := &Result{}
	defer func() {
		cConn.Close()
		sConn.Close()
		relay.Close()
		res.C2S, res.S2C, res.Order = relay.Logs()
		res.Acted = relay.Acted()
		res.WallMS = time.Since(t0).Milliseconds()
	}()

	cCfg := env.secConfig(cfg.C, cfg.Cmd, true)
	sCfg := env.secConfig(cfg.S, cfg.Cmd, false)
	cCfg.SessionCache = o.ClientCache
	if cCfg.SessionCache == nil {
		cCfg.SessionCache = security.NewSessionCache()
	}
	cStream := stream.NewStream(cConn)
	sStream := stream.NewStream(sConn)
	cAuth := security.NewAuthenticator(cCfg, cStream)
	sAuth := security.NewAuthenticator(sCfg, sStream)

	ctx, cancel := context.WithTimeout(context.Background(), o.Timeout)
	defer cancel()

	cMsg, sMsg := AppPayload("client", serial), AppPayload("server", serial)
	done := make(chan struct{}, 2)
	endpoint := func(side *Side, st *stream.Stream, conn *wire.C04Conn, hs func() (*security.SecurityNegotiation, error), mine, theirs []byte) {
		defer func() {
			if r := recover(); r != nil {
				side.OK = false
				side.Err = fmt.Sprintf("panic: %v", r)
				conn.Close()
			}
			done <- struct{}{}
		}()
		neg, err := hs()
		project(neg, err, st, side)
		if !side.OK {
			conn.Close()
			return
		}
		if o.NoApp {
			return
		}
		if err := st.SendMessage(ctx, mine); err != nil {
			side.AppTimedOut = errors.Is(err, context.DeadlineExceeded)
			side.AppErr = "send: " + err.Error()
			conn.Close()
			return
		}
		side.AppSent = true
		got, err := st.ReceiveCompleteMessage(ctx)
		if err != nil {
			side.AppTimedOut = errors.Is(err, context.DeadlineExceeded)
			side.AppErr = "recv: " + err.Error()
			conn.Close()
			return
		}
		side.AppAccepted = true
		side.AppIntact = string(got) == string(theirs)
	}
	go endpoint(&res.S, sStream, sConn, func() (*security.SecurityNegotiation, error) { return sAuth.ServerHandshake(ctx) }, sMsg, cMsg)
	go endpoint(&res.C, cStream, cConn, func() (*security.SecurityNegotiation, error) { return cAuth.ClientHandshake(ctx) }, cMsg, sMsg)
	<-done
	<-done
	if !o.KeepSession && res.S.Sid != "" {
		security.GetSessionCache().Invalidate(res.S.Sid)
	}
	return res
}

// QuietStdout redirects os.Stdout to /dev/null until the returned function is
// called: cedar's token code reports failed exchanges with fmt.Printf, which
// would drown the check's own output during tampering runs.
func QuietStdout() (restore func()) {
	old := os.Stdout
	null, err := os.OpenFile(os.DevNull, os.O_WRONLY, 0)
	if err != nil {
		return func() {}
	}
	os.Stdout = null
	return func() {
		os.Stdout = old
		null.Close()
	}
}
