package hsreal

import (
	"bytes"
	"encoding/binary"
	"strings"
)

// The abstract names of spec/Handshake.tla and their concrete members.

// AbsEnd is an endpoint policy in the model's vocabulary.
type AbsEnd struct {
	Auth    string   `json:"auth"`
	Enc     string   `json:"enc"`
	Methods []string `json:"methods"`
	Ciphers []string `json:"ciphers"`
}

// AbsCfg is a configuration of the model.
type AbsCfg struct {
	C   AbsEnd `json:"c"`
	S   AbsEnd `json:"s"`
	Cmd bool   `json:"cmd"`
}

// Concretise maps abstract method / cipher names to real ones. bName is the
// concrete member chosen for the usable method "B" (TOKEN or IDTOKENS); the
// usable method "C" is then the other spelling.
func Concretise(a AbsCfg, bName string) Config {
	if bName == "" {
		bName = "TOKEN"
	}
	m := func(xs []string) []string {
		out := []string{}
		for _, x := range xs {
			switch x {
			case "A":
				out = append(out, "CLAIMTOBE")
			case "B":
				out = append(out, bName)
			case "C": // the other spelling of the token method (same wire bit, different name)
				if bName == "IDTOKENS" {
					out = append(out, "TOKEN")
				} else {
					out = append(out, "IDTOKENS")
				}
			case "U":
				out = append(out, "PASSWORD") // declared, not implemented
			case "X":
				out = append(out, "BOGUSAUTH") // unknown name
			default:
				out = append(out, x)
			}
		}
		return out
	}
	ci := func(xs []string) []string {
		out := []string{}
		for _, x := range xs {
			switch x {
			case "BF":
				out = append(out, "BLOWFISH") // named by cedar, no implementation
			default:
				out = append(out, x)
			}
		}
		return out
	}
	return Config{
		C:   End{Auth: a.C.Auth, Enc: a.C.Enc, Methods: m(a.C.Methods), Ciphers: ci(a.C.Ciphers)},
		S:   End{Auth: a.S.Auth, Enc: a.S.Enc, Methods: m(a.S.Methods), Ciphers: ci(a.S.Ciphers)},
		Cmd: a.Cmd,
	}
}

// ConcreteMethod maps one abstract method name.
func ConcreteMethod(x, bName string) string {
	c := Concretise(AbsCfg{C: AbsEnd{Methods: []string{x}}}, bName)
	return c.C.Methods[0]
}

func kindOfMethod(m string) string {
	switch m {
	case "A", "B", "C":
		return "usable"
	case "U":
		return "unimpl"
	case "F":
		return "failsrt"
	}
	return "unknown"
}

// MethodClass is the list-shape class of a pair of method lists: the kinds of
// the methods both ends list, in server order ("nocommon" if none).
func MethodClass(cl, sl []string) string {
	var ks []string
	for _, m := range sl {
		for _, c := range cl {
			if c == m {
				k := kindOfMethod(m)
				if len(ks) == 0 || ks[len(ks)-1] != k {
					ks = append(ks, k)
				}
			}
		}
	}
	if len(ks) == 0 {
		return "nocommon"
	}
	return strings.Join(ks, "+")
}

// CipherClass is the same for cipher lists.
func CipherClass(cl, sl []string) string {
	var ks []string
	for _, m := range sl {
		for _, c := range cl {
			if c == m {
				k := "unimpl"
				if m == "AES" {
					k = "aes"
				}
				if len(ks) == 0 || ks[len(ks)-1] != k {
					ks = append(ks, k)
				}
			}
		}
	}
	if len(ks) == 0 {
		return "nocommon"
	}
	return strings.Join(ks, "+")
}

// ---- observations on the recorded wire (independent of cedar's codec) ----

// ReturnCodeOnWire looks for a ClassAd attribute ReturnCode = "..." in a
// cleartext frame and returns its value ("" if absent).
func ReturnCodeOnWire(frame []byte) string {
	const key = "ReturnCode = \""
	i := bytes.Index(frame, []byte(key))
	if i < 0 {
		return ""
	}
	rest := frame[i+len(key):]
	j := bytes.IndexByte(rest, '"')
	if j < 0 {
		return ""
	}
	return string(rest[:j])
}

// IsIntFrame reports whether a wire frame is a complete message holding exactly
// one 8-byte big-endian integer (bitmask offers / selections / flags).
func IsIntFrame(frame []byte) (int64, bool) {
	if len(frame) != 13 || frame[0] != 1 || binary.BigEndian.Uint32(frame[1:5]) != 8 {
		return 0, false
	}
	return int64(binary.BigEndian.Uint64(frame[5:])), true
}

// WirePath is the abstract path of a full handshake as seen on the wire.
type WirePath struct {
	Hello       bool   `json:"hello"`  // first c2s frame starts with DC_AUTHENTICATE
	Denied      bool   `json:"denied"` // a server frame carries ReturnCode != AUTHORIZED
	DenyCode    string `json:"deny_code,omitempty"`
	Offers      int    `json:"offers"`       // client bitmask frames (c2s int frames right after a server frame)
	MethodBytes int    `json:"method_bytes"` // c2s bytes that are neither hello, offers nor application data
}

// ObserveFull derives the WirePath from the frames each side sent. appC is the
// number of application frames the client sent (0 or 1).
func ObserveFull(c2s, s2c [][]byte, appC int) WirePath {
	var p WirePath
	if len(c2s) > 0 && len(c2s[0]) >= 13 {
		p.Hello = binary.BigEndian.Uint64(c2s[0][5:13]) == 60010
	}
	for _, f := range s2c {
		if rc := ReturnCodeOnWire(f); rc != "" && rc != "AUTHORIZED" {
			p.Denied = true
			p.DenyCode = rc
		}
	}
	n := len(c2s) - appC
	for i := 1; i < n; i++ {
		if _, ok := IsIntFrame(c2s[i]); ok {
			p.Offers++
		} else {
			p.MethodBytes += len(c2s[i])
		}
	}
	return p
}
