package hsreal

import (
	"fmt"
	"testing"
)

func dump(t *testing.T, name string, r *Result) {
	fmt.Printf("== %s  (%d ms)\n C: %+v\n S: %+v\n order=%v\n", name, r.WallMS, r.C, r.S, r.Order)
	for i, f := range r.C2S.In {
		fmt.Printf("  c2s[%d] len=%d hdr=%x %.60q\n", i+1, len(f), f[:5], f[5:])
	}
	for i, f := range r.S2C.In {
		fmt.Printf("  s2c[%d] len=%d hdr=%x %.60q\n", i+1, len(f), f[:5], f[5:])
	}
}

func TestScratch(t *testing.T) {
	env, err := NewEnv(t.TempDir())
	if err != nil {
		t.Fatal(err)
	}
	mk := func(ca, sa, ce, se string, cm, sm []string) Config {
		return Config{C: End{ca, ce, cm, []string{"AES"}}, S: End{sa, se, sm, []string{"AES"}}, Cmd: true}
	}
	dump(t, "noauth", Run(env, mk("NEVER", "NEVER", "REQUIRED", "REQUIRED", nil, nil), Opts{}))
	dump(t, "claimtobe", Run(env, mk("REQUIRED", "REQUIRED", "REQUIRED", "REQUIRED", []string{"CLAIMTOBE"}, []string{"CLAIMTOBE"}), Opts{}))
	dump(t, "token", Run(env, mk("REQUIRED", "REQUIRED", "REQUIRED", "REQUIRED", []string{"TOKEN"}, []string{"TOKEN"}), Opts{}))
	dump(t, "idtokens", Run(env, mk("REQUIRED", "REQUIRED", "REQUIRED", "REQUIRED", []string{"IDTOKENS"}, []string{"IDTOKENS"}), Opts{}))
	dump(t, "opt/req", Run(env, mk("OPTIONAL", "REQUIRED", "OPTIONAL", "OPTIONAL", []string{"CLAIMTOBE"}, []string{"CLAIMTOBE"}), Opts{}))
	dump(t, "pref/never", Run(env, mk("PREFERRED", "NEVER", "OPTIONAL", "OPTIONAL", []string{"CLAIMTOBE"}, []string{"CLAIMTOBE"}), Opts{}))
	dump(t, "pref/pref password", Run(env, mk("PREFERRED", "PREFERRED", "OPTIONAL", "OPTIONAL", []string{"PASSWORD"}, []string{"PASSWORD"}), Opts{}))
	dump(t, "req/never", Run(env, mk("REQUIRED", "NEVER", "OPTIONAL", "OPTIONAL", []string{"CLAIMTOBE"}, []string{"CLAIMTOBE"}), Opts{}))
}
