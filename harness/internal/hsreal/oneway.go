package hsreal

import (
	"context"
	"crypto/rand"
	"crypto/sha256"
	"encoding/hex"
	"errors"
	"fmt"
	"io"
	"net"
	"os"
	"sync/atomic"
	"time"

	"github.com/PelicanPlatform/classad/classad"
	"github.com/bbockelm/cedar/message"
	"github.com/bbockelm/cedar/security"
	"github.com/bbockelm/cedar/stream"

	"cedarverif/internal/wire"
)

// This file holds the cleartext-prefix shapes of spec/Handshake.tla in which not
// both directions carry cleartext before the key is installed:
//
//   - RunOneWayResume ("resume1"): a resumption WITHOUT a reply
//     (ResumeResponse=false, the classic HTCondor fast path). cedar's own client
//     always asks for a reply, so the client is scripted on top of cedar's public
//     stream / message API; the server is the real ServerHandshake /
//     handleSessionResumption with a private SessionCache holding the keyed session.
//   - RunPrekeyed ("preXY"): two real stream.Streams that exchange X cleartext
//     messages client->server, then Y server->client, then both SetSymmetricKey.
//
// Both end, like Run, with one application message each way, through the same
// frame-aware relay.

func errSide(side *Side, st *stream.Stream, err error) {
	side.StreamEnc = st.IsEncrypted()
	side.Err = err.Error()
	side.TimedOut = errors.Is(err, context.DeadlineExceeded) || errors.Is(err, os.ErrDeadlineExceeded)
	side.BareClose = side.TimedOut || errors.Is(err, io.EOF) || errors.Is(err, io.ErrUnexpectedEOF) ||
		errors.Is(err, io.ErrClosedPipe) || errors.Is(err, net.ErrClosed)
}

func okSide(side *Side, st *stream.Stream, key []byte, resumed bool) {
	side.OK = true
	side.StreamEnc = st.IsEncrypted()
	side.Enc = side.StreamEnc
	side.Resumed = resumed
	h := sha256.Sum256(key)
	side.KeyHash = hex.EncodeToString(h[:8])
	side.key = append([]byte(nil), key...)
}

// runPair runs a client and a server "handshake" function over a relayed link
// and then the application exchange of every side that succeeded.
func runPair(o Opts, hsC, hsS func(ctx context.Context, st *stream.Stream, side *Side) error) *Result {
	t0 := time.Now()
	if o.Timeout == 0 {
		o.Timeout = 2 * time.Second
	}
	serial := atomic.AddInt64(&runSerial, 1)
	cConn, sConn, relay := wire.NewC04Link("10.1.0.2:40000", "10.1.0.1:9618", o.Relay)
	res := &Result{}
	defer func() {
		cConn.Close()
		sConn.Close()
		relay.Close()
		res.C2S, res.S2C, res.Order = relay.Logs()
		res.Acted = relay.Acted()
		res.WallMS = time.Since(t0).Milliseconds()
	}()
	ctx, cancel := context.WithTimeout(context.Background(), o.Timeout)
	defer cancel()
	cMsg, sMsg := AppPayload("client", serial), AppPayload("server", serial)
	done := make(chan struct{}, 2)
	endpoint := func(side *Side, conn *wire.C04Conn, hs func(ctx context.Context, st *stream.Stream, side *Side) error, mine, theirs []byte) {
		st := stream.NewStream(conn)
		defer func() {
			if r := recover(); r != nil {
				side.OK = false
				side.Err = fmt.Sprintf("panic: %v", r)
				conn.Close()
			}
			done <- struct{}{}
		}()
		if err := hs(ctx, st, side); err != nil {
			errSide(side, st, err)
			conn.Close()
			return
		}
		if err := st.SendMessage(ctx, mine); err != nil {
			side.AppTimedOut = errors.Is(err, context.DeadlineExceeded)
			side.AppErr = "send: " + err.Error()
			conn.Close()
			return
		}
		side.AppSent = true
		got, err := st.ReceiveCompleteMessage(ctx)
		if err != nil {
			side.AppTimedOut = errors.Is(err, context.DeadlineExceeded)
			side.AppErr = "recv: " + err.Error()
			conn.Close()
			return
		}
		side.AppAccepted = true
		side.AppIntact = string(got) == string(theirs)
	}
	go endpoint(&res.S, sConn, hsS, sMsg, cMsg)
	go endpoint(&res.C, cConn, hsC, cMsg, sMsg)
	<-done
	<-done
	return res
}

func freshKey() []byte {
	k := make([]byte, 32)
	_, _ = rand.Read(k)
	return k
}

// RunOneWayResume: scripted client (cleartext resumption request without reply,
// then straight to the cached key) against the real server handshake.
func RunOneWayResume(env *Env, o Opts) *Result {
	key := freshKey()
	sid := fmt.Sprintf("verif-oneway-%d-%s", atomic.AddInt64(&runSerial, 1), hex.EncodeToString(key[:4]))
	cache := security.NewSessionCache()
	policy := classad.New()
	_ = policy.Set("AuthMethods", "CLAIMTOBE")
	_ = policy.Set("Authenticated", true)
	_ = policy.Set("User", "verif@cedar.test")
	_ = policy.Set("ValidCommands", fmt.Sprint(CommandPresent))
	cache.Store(security.NewSessionEntry(sid, "", &security.KeyInfo{Data: key, Protocol: "AES"}, policy,
		time.Now().Add(time.Hour), time.Hour, ""))

	hsC := func(ctx context.Context, st *stream.Stream, side *Side) error {
		req := message.NewMessageForStream(st)
		if err := req.PutInt(ctx, 60010); err != nil { // DC_AUTHENTICATE
			return err
		}
		nonce := make([]byte, 16)
		_, _ = rand.Read(nonce)
		ad := classad.New()
		_ = ad.Set("Command", CommandPresent)
		_ = ad.Set("UseSession", "YES")
		_ = ad.Set("Sid", sid)
		_ = ad.Set("ResumeResponse", false)
		_ = ad.Set("ResumeNonce", hex.EncodeToString(nonce))
		_ = ad.Set("CryptoMethods", "AES")
		if err := req.PutClassAd(ctx, ad); err != nil {
			return err
		}
		if err := req.FinishMessage(ctx); err != nil {
			return err
		}
		if err := st.SetSymmetricKey(key); err != nil {
			return err
		}
		okSide(side, st, key, true)
		side.Sid = sid
		return nil
	}
	hsS := func(ctx context.Context, st *stream.Stream, side *Side) error {
		cfg := env.secConfig(End{Auth: "PREFERRED", Enc: "REQUIRED", Methods: []string{"CLAIMTOBE"}, Ciphers: []string{"AES"}}, true, false)
		cfg.Integrity = security.SecurityRequired
		cfg.SessionCache = cache
		neg, err := security.NewAuthenticator(cfg, st).ServerHandshake(ctx)
		if err != nil {
			return err
		}
		project(neg, nil, st, side)
		return nil
	}
	return runPair(o, hsC, hsS)
}

// RunPrekeyed: nc cleartext messages client->server, then ns server->client,
// then SetSymmetricKey on both real streams.
func RunPrekeyed(nc, ns int, o Opts) *Result {
	key := freshKey()
	pre := func(role string, i int) []byte {
		return []byte(fmt.Sprintf("cleartext preamble %d of the %s, to be bound into the channel", i, role))
	}
	hsC := func(ctx context.Context, st *stream.Stream, side *Side) error {
		for i := 0; i < nc; i++ {
			if err := st.SendMessage(ctx, pre("client", i)); err != nil {
				return err
			}
		}
		for i := 0; i < ns; i++ {
			if _, err := st.ReceiveCompleteMessage(ctx); err != nil {
				return err
			}
		}
		if err := st.SetSymmetricKey(key); err != nil {
			return err
		}
		okSide(side, st, key, false)
		return nil
	}
	hsS := func(ctx context.Context, st *stream.Stream, side *Side) error {
		for i := 0; i < nc; i++ {
			if _, err := st.ReceiveCompleteMessage(ctx); err != nil {
				return err
			}
		}
		for i := 0; i < ns; i++ {
			if err := st.SendMessage(ctx, pre("server", i)); err != nil {
				return err
			}
		}
		if err := st.SetSymmetricKey(key); err != nil {
			return err
		}
		okSide(side, st, key, false)
		return nil
	}
	return runPair(o, hsC, hsS)
}
