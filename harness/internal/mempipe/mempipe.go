// Package mempipe provides the buffered in-memory connection used by the C05
// and C16 checks (kept out of the shared wire package).
package mempipe

import (
	"bytes"
	"io"
	"net"
	"os"
	"sync"
	"time"
)

// C05Pipe returns the two ends of a buffered, in-memory, full-duplex
// connection (used by the C05 and C16 checks). Unlike net.Pipe a Write never
// waits for the reader, so the two endpoints are coupled exactly like over a
// TCP socket with free buffer space; unlike TCP it needs no ports, and the
// harness chooses the addresses each side sees. Every byte written in either
// direction is also kept in a log the harness can search (what an on-path
// observer would have seen). Deadlines and Close behave like a socket's.
func C05Pipe(clientAddr, serverAddr string) (client, server *C05Conn) {
	c2s := newC05Half()
	s2c := newC05Half()
	client = &C05Conn{rd: s2c, wr: c2s, local: pipeAddr(clientAddr), remote: pipeAddr(serverAddr)}
	server = &C05Conn{rd: c2s, wr: s2c, local: pipeAddr(serverAddr), remote: pipeAddr(clientAddr)}
	return client, server
}

type c05Half struct {
	mu     sync.Mutex
	cond   *sync.Cond
	buf    bytes.Buffer
	log    bytes.Buffer
	wclose bool // writer closed: reader sees EOF after draining
	rclose bool // reader closed: writer gets an error
}

func newC05Half() *c05Half {
	h := &c05Half{}
	h.cond = sync.NewCond(&h.mu)
	return h
}

// C05Conn is one end of a C05Pipe.
type C05Conn struct {
	rd, wr        *c05Half
	local, remote pipeAddr

	dmu       sync.Mutex
	rDeadline time.Time
	rTimer    *time.Timer
	closed    bool
}

func (c *C05Conn) Read(p []byte) (int, error) {
	h := c.rd
	h.mu.Lock()
	defer h.mu.Unlock()
	for {
		if h.rclose {
			return 0, net.ErrClosed
		}
		if h.buf.Len() > 0 {
			return h.buf.Read(p)
		}
		if h.wclose {
			return 0, io.EOF
		}
		c.dmu.Lock()
		dl := c.rDeadline
		c.dmu.Unlock()
		if !dl.IsZero() && !time.Now().Before(dl) {
			return 0, os.ErrDeadlineExceeded
		}
		h.cond.Wait()
	}
}

func (c *C05Conn) Write(p []byte) (int, error) {
	h := c.wr
	h.mu.Lock()
	defer h.mu.Unlock()
	if h.wclose {
		return 0, net.ErrClosed
	}
	if h.rclose {
		return 0, io.ErrClosedPipe
	}
	h.buf.Write(p)
	h.log.Write(p)
	h.cond.Broadcast()
	return len(p), nil
}

// Close closes both directions of this end (idempotent).
func (c *C05Conn) Close() error {
	c.dmu.Lock()
	already := c.closed
	c.closed = true
	if c.rTimer != nil {
		c.rTimer.Stop()
	}
	c.dmu.Unlock()
	if already {
		return nil
	}
	c.rd.mu.Lock()
	c.rd.rclose = true
	c.rd.cond.Broadcast()
	c.rd.mu.Unlock()
	c.wr.mu.Lock()
	c.wr.wclose = true
	c.wr.cond.Broadcast()
	c.wr.mu.Unlock()
	return nil
}

// CloseWrite closes only this end's sending direction (like shutdown(SHUT_WR)):
// the peer reads EOF after draining, while its own writes still succeed.
func (c *C05Conn) CloseWrite() {
	c.wr.mu.Lock()
	c.wr.wclose = true
	c.wr.cond.Broadcast()
	c.wr.mu.Unlock()
}

// IsClosed reports whether this end was closed by its owner.
func (c *C05Conn) IsClosed() bool { c.dmu.Lock(); defer c.dmu.Unlock(); return c.closed }

// PeerClosed reports whether the other end has closed (our reads will hit EOF
// once the buffer is drained).
func (c *C05Conn) PeerClosed() bool {
	c.rd.mu.Lock()
	defer c.rd.mu.Unlock()
	return c.rd.wclose
}

// Sent returns a copy of every byte this end has written so far.
func (c *C05Conn) Sent() []byte {
	c.wr.mu.Lock()
	defer c.wr.mu.Unlock()
	return append([]byte(nil), c.wr.log.Bytes()...)
}

func (c *C05Conn) LocalAddr() net.Addr  { return c.local }
func (c *C05Conn) RemoteAddr() net.Addr { return c.remote }

func (c *C05Conn) SetDeadline(t time.Time) error {
	return c.SetReadDeadline(t)
}

func (c *C05Conn) SetReadDeadline(t time.Time) error {
	c.dmu.Lock()
	c.rDeadline = t
	if c.rTimer != nil {
		c.rTimer.Stop()
		c.rTimer = nil
	}
	if !t.IsZero() {
		d := time.Until(t)
		if d < 0 {
			d = 0
		}
		h := c.rd
		c.rTimer = time.AfterFunc(d, func() {
			h.mu.Lock()
			h.cond.Broadcast()
			h.mu.Unlock()
		})
	}
	c.dmu.Unlock()
	return nil
}

func (c *C05Conn) SetWriteDeadline(t time.Time) error { return nil }

type pipeAddr string

func (a pipeAddr) Network() string { return "mem" }
func (a pipeAddr) String() string  { return string(a) }
