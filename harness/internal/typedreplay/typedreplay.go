// Package typedreplay binds spec/TypedValues.tla to the real cedar code (C14).
//
// A behaviour printed by Gen_TypedValues is (value sequence, encryption mode,
// cut set) with the model's byte layout of every value. It is replayed as
//
//	a  layout: the real message.Message Put* calls write the values to a real
//	   stream; the frames are parsed (and opened) by the reference codec and the
//	   bytes must equal the model's Layout and the INDEPENDENT reference encoder;
//	b  cut independence: the same bytes are re-framed by the reference codec at
//	   the behaviour's cut positions and a real stream + Message must return the
//	   values through Get*, and consume exactly those bytes.
//
// Each behaviour is also expanded to other concrete values of the same types
// and encoded lengths (integer boundary values and seeded random ones through
// every width API, random finite doubles incl. subnormals and extreme
// exponents, random valid UTF-8 strings), so the model's cut positions carry
// over unchanged.
package typedreplay

import (
	"bytes"
	"context"
	"fmt"
	"math"
	"math/rand"
	"unicode/utf8"

	"cedarverif/internal/refcodec"
	"cedarverif/internal/wire"

	"github.com/bbockelm/cedar/message"
	"github.com/bbockelm/cedar/stream"
)

type Tok struct {
	T    string `json:"t"`
	V    int64  `json:"v"`
	B    []int  `json:"b"`
	S    []int  `json:"s"`
	Frac int64  `json:"frac"`
	Exp  int64  `json:"exp"`
}

type Scenario struct {
	Names   []string `json:"names"`
	Enc     bool     `json:"enc"`
	Cuts    []int    `json:"cuts"`
	Vals    []Tok    `json:"vals"`
	Layouts [][]int  `json:"layouts"`
	Frames  [][]int  `json:"frames"`
	Out     []Tok    `json:"out"`
}

type Variant struct {
	Salt    int `json:"salt"`
	K       int `json:"k"` // 0: the model's own values; >0: k-th expansion
	Dribble int `json:"dribble"`
}

// Val is a concrete typed value together with the width API used for it.
type Val struct {
	T string  `json:"t"` // char | int | double | string
	C byte    `json:"c,omitempty"`
	I int64   `json:"i,omitempty"`
	W string  `json:"w,omitempty"` // int | int32 | int64 | uint32
	D float64 `json:"d,omitempty"`
	S []byte  `json:"s,omitempty"`
}

func (v Val) String() string {
	switch v.T {
	case "char":
		return fmt.Sprintf("char(%d)", v.C)
	case "int":
		return fmt.Sprintf("%s(%d)", v.W, v.I)
	case "double":
		return fmt.Sprintf("double(%v=bits %016x)", v.D, math.Float64bits(v.D))
	default:
		if len(v.S) > 40 {
			return fmt.Sprintf("string(len %d)", len(v.S))
		}
		return fmt.Sprintf("string(%q)", v.S)
	}
}

type Diff struct {
	Invariant string // Layout | CutIndependence | RoundTrip
	Type      string
	Mode      string
	Class     string
	Detail    string
	Broken    bool
}

func (d *Diff) Error() string {
	return fmt.Sprintf("%s violated for %s (%s, %s): %s", d.Invariant, d.Type, d.Mode, d.Class, d.Detail)
}

func Signature(d *Diff) map[string]string {
	return map[string]string{"spec": "TypedValues", "invariant": d.Invariant, "type": d.Type, "mode": d.Mode, "class": d.Class}
}

type Stats struct {
	Values      int64
	Puts        int64
	Gets        int64
	Cuts        int64
	DoubleExact int64 // decoded double identical to the reference decoding rule
	Doubles     int64
	MaxRelErr   float64
}

func (s *Stats) Add(o *Stats) {
	s.Values += o.Values
	s.Puts += o.Puts
	s.Gets += o.Gets
	s.Cuts += o.Cuts
	s.DoubleExact += o.DoubleExact
	s.Doubles += o.Doubles
	if o.MaxRelErr > s.MaxRelErr {
		s.MaxRelErr = o.MaxRelErr
	}
}

var bg = context.Background()

func mode(enc bool) string {
	if enc {
		return "encrypted"
	}
	return "plain"
}

// doubles named by the model (TLC has no reals: the model holds the
// (fraction, exponent) pair, the harness the value)
var namedDoubles = map[string]float64{
	"dbl_1": 1.0, "dbl_m0375": -0.375, "dbl_0": 0, "dbl_tiny": math.SmallestNonzeroFloat64,
}

func toBytes(xs []int) []byte {
	b := make([]byte, len(xs))
	for i, x := range xs {
		b[i] = byte(x)
	}
	return b
}

func fits32(i int64) bool  { return i >= math.MinInt32 && i <= math.MaxInt32 }
func fitsU32(i int64) bool { return i >= 0 && i <= math.MaxUint32 }

func widths(i int64) []string {
	w := []string{"int64", "int"}
	if fits32(i) {
		w = append(w, "int32")
	}
	if fitsU32(i) {
		w = append(w, "uint32")
	}
	return w
}

// modelValue turns a model token into the concrete value.
func modelValue(name string, t Tok, k int) (Val, error) {
	switch t.T {
	case "char":
		return Val{T: "char", C: byte(t.V)}, nil
	case "int":
		w := widths(t.V)
		return Val{T: "int", I: t.V, W: w[k%len(w)]}, nil
	case "wide":
		if len(t.B) != 8 {
			return Val{}, fmt.Errorf("wide token without 8 bytes")
		}
		var u uint64
		for _, b := range t.B {
			u = u<<8 | uint64(byte(b))
		}
		w := widths(int64(u))
		return Val{T: "int", I: int64(u), W: w[k%len(w)]}, nil
	case "double":
		x, ok := namedDoubles[name]
		if !ok {
			return Val{}, fmt.Errorf("double token %q unknown to the harness", name)
		}
		return Val{T: "double", D: x}, nil
	case "string":
		return Val{T: "string", S: toBytes(t.S)}, nil
	}
	return Val{}, fmt.Errorf("unknown token type %q", t.T)
}

var intBoundaries = []int64{0, 1, -1, 127, 128, -128, -129, 255, 256, -256, 32767, 32768, -32768, -32769,
	65535, 65536, math.MaxInt32, math.MaxInt32 + 1, math.MinInt32, math.MinInt32 - 1, math.MaxUint32, math.MaxUint32 + 1,
	-(1 << 32), 1 << 53, math.MaxInt64, math.MinInt64, math.MinInt64 + 1, 0x0102030405060708, -0x0102030405060708}

var doubleBoundaries = []float64{0, math.Copysign(0, -1), 1, -1, 0.5, 0.75, 2, 1e-300, 1e300, math.MaxFloat64, -math.MaxFloat64,
	math.SmallestNonzeroFloat64, -math.SmallestNonzeroFloat64, 0x1p-1022, math.Float64frombits(0x000fffffffffffff),
	math.Pi, math.Nextafter(1, 0), math.Nextafter(1, 2), math.Nextafter(0.5, 0), 0x1p1023, 0x1p-1074 * 3, 1.0 / 3, -2.5e-310, 123456789.125}

func randDouble(r *rand.Rand) float64 {
	for {
		var x float64
		switch r.Intn(4) {
		case 0: // any finite bit pattern
			x = math.Float64frombits(r.Uint64())
		case 1: // subnormal
			x = math.Float64frombits(r.Uint64() & 0x800fffffffffffff)
		case 2: // extreme exponents
			e := uint64(1 + r.Intn(3))
			if r.Intn(2) == 0 {
				e = uint64(0x7fe - r.Intn(3))
			}
			x = math.Float64frombits(r.Uint64()&0x800fffffffffffff | e<<52)
		default: // few mantissa bits (fractions near the truncation edge)
			x = math.Ldexp(float64(r.Int63n(1<<uint(1+r.Intn(40)))+1), r.Intn(200)-100)
			if r.Intn(2) == 0 {
				x = -x
			}
		}
		if !math.IsNaN(x) && !math.IsInf(x, 0) {
			return x
		}
	}
}

func randInt(r *rand.Rand) int64 {
	bits := uint(1 + r.Intn(64))
	v := int64(r.Uint64() >> (64 - bits))
	if r.Intn(2) == 0 {
		v = -v
	}
	return v
}

// randUTF8 returns valid, NUL-free UTF-8 of exactly n bytes.
func randUTF8(r *rand.Rand, n int) []byte {
	out := make([]byte, 0, n)
	for len(out) < n {
		rem := n - len(out)
		sz := 1 + r.Intn(4)
		if sz > rem {
			sz = rem
		}
		var c rune
		switch sz {
		case 1:
			c = rune(1 + r.Intn(0x7f))
		case 2:
			c = rune(0x80 + r.Intn(0x800-0x80))
		case 3:
			c = rune(0x800 + r.Intn(0x10000-0x800))
			if c >= 0xD800 && c <= 0xDFFF {
				c = 0x20AC
			}
		default:
			c = rune(0x10000 + r.Intn(0x110000-0x10000))
		}
		out = utf8.AppendRune(out, c)
	}
	return out
}

// expand returns the k-th expansion (k >= 1) of a token: another value of the
// same type and the same encoded length.
func expand(t Tok, k int, r *rand.Rand) Val {
	switch t.T {
	case "char":
		switch k {
		case 1:
			return Val{T: "char", C: 0}
		case 2:
			return Val{T: "char", C: 255}
		}
		return Val{T: "char", C: byte(r.Intn(256))}
	case "int", "wide":
		var i int64
		if r.Intn(2) == 0 {
			i = intBoundaries[r.Intn(len(intBoundaries))]
		} else {
			i = randInt(r)
		}
		w := widths(i)
		return Val{T: "int", I: i, W: w[r.Intn(len(w))]}
	case "double":
		if r.Intn(3) == 0 {
			return Val{T: "double", D: doubleBoundaries[r.Intn(len(doubleBoundaries))]}
		}
		return Val{T: "double", D: randDouble(r)}
	default:
		s := toBytes(t.S)
		content := refcodec.C14StringContent(s)
		out := randUTF8(r, len(content))
		if len(content) < len(s) { // the token has an embedded NUL: keep one, with a random tail
			out = append(out, 0)
			out = append(out, randUTF8(r, r.Intn(4))...)
		}
		return Val{T: "string", S: out}
	}
}

// Values returns the concrete values of a behaviour under a variant.
func Values(sc *Scenario, v Variant) ([]Val, error) {
	vals := make([]Val, len(sc.Vals))
	for i, t := range sc.Vals {
		if v.K == 0 {
			mv, err := modelValue(sc.Names[i], t, v.Salt+i)
			if err != nil {
				return nil, err
			}
			vals[i] = mv
			continue
		}
		r := rand.New(rand.NewSource(int64(v.Salt)*1000003 + int64(v.K)*7919 + int64(i)*31 + int64(len(sc.Cuts))))
		vals[i] = expand(t, v.K, r)
	}
	return vals, nil
}

// reference encoding of a value
func refEncode(v Val, enc bool) []byte {
	switch v.T {
	case "char":
		return refcodec.C14Char(v.C)
	case "int":
		if v.W == "uint32" {
			return refcodec.C14Uint32(uint32(v.I))
		}
		return refcodec.C14Int(v.I)
	case "double":
		return refcodec.C14Double(v.D)
	default:
		return refcodec.C14String(v.S, enc)
	}
}

func key(salt int) []byte {
	k := make([]byte, 32)
	r := rand.New(rand.NewSource(int64(salt) + 4242))
	r.Read(k)
	return k
}

func put(m *message.Message, v Val) error {
	switch v.T {
	case "char":
		return m.PutChar(bg, v.C)
	case "int":
		switch v.W {
		case "int32":
			return m.PutInt32(bg, int32(v.I))
		case "uint32":
			return m.PutUint32(bg, uint32(v.I))
		case "int":
			return m.PutInt(bg, int(v.I))
		default:
			return m.PutInt64(bg, v.I)
		}
	case "double":
		return m.PutDouble(bg, v.D)
	default:
		return m.PutString(bg, string(v.S))
	}
}

// RealEncode is realEncodeRaw without the raw wire bytes.
func RealEncode(vals []Val, enc bool, salt int, stt *Stats) ([]byte, int, error) {
	out, n, _, err := realEncodeRaw(vals, enc, salt, stt)
	return out, n, err
}

// realEncodeRaw writes the values through the real Put* calls to a real stream
// and returns what the reference codec reads back from the wire.
func realEncodeRaw(vals []Val, enc bool, salt int, stt *Stats) ([]byte, int, []byte, error) {
	conn := wire.NewBufConn("sender")
	st := stream.NewStream(conn)
	if enc {
		if err := st.SetSymmetricKey(key(salt)); err != nil {
			return nil, 0, nil, err
		}
	}
	m := message.NewMessageForStream(st)
	for _, v := range vals {
		stt.Puts++
		if err := put(m, v); err != nil {
			return nil, 0, nil, fmt.Errorf("Put %s: %w", v, err)
		}
	}
	if err := m.FinishMessage(bg); err != nil {
		return nil, 0, nil, fmt.Errorf("FinishMessage: %w", err)
	}
	raw := conn.TakeOut()
	frames, rest := refcodec.ParseFrames(raw)
	if len(rest) != 0 {
		return nil, 0, nil, fmt.Errorf("sender output does not parse as frames (%d bytes left)", len(rest))
	}
	var op *refcodec.Opener
	if enc {
		op = refcodec.NewOpener(key(salt), [32]byte{}, [32]byte{})
	}
	var out []byte
	for i, f := range frames {
		body := f.Body
		if enc {
			pt, err := op.Open(f)
			if err != nil {
				return nil, 0, nil, fmt.Errorf("frame %d does not open with the reference decryptor: %v", i, err)
			}
			body = pt
		}
		if (f.End == 1) != (i == len(frames)-1) {
			return nil, 0, nil, fmt.Errorf("frame %d of %d carries end flag %d", i, len(frames), f.End)
		}
		out = append(out, body...)
	}
	return out, len(frames), raw, nil
}

// Reframe cuts b after the given positions and renders the frames with the
// reference codec (sealed on an encrypting stream).
func Reframe(b []byte, cuts []int, enc bool, salt int) []byte {
	var sl *refcodec.Sealer
	if enc {
		var iv [16]byte
		rand.New(rand.NewSource(int64(salt) + 99)).Read(iv[:])
		sl = refcodec.NewSealer(key(salt), iv, [32]byte{}, [32]byte{})
	}
	var out []byte
	from := 0
	emit := func(to int, end byte) {
		var fr refcodec.Frame
		if enc {
			fr = sl.Seal(end, b[from:to])
		} else {
			fr = refcodec.Frame{End: end, Body: b[from:to]}
		}
		out = append(out, fr.Encode()...)
		from = to
	}
	// no frame may exceed what a receiver accepts (1 MiB on the wire incl. tag and IV)
	const maxPlain = 1048576 - 32
	upTo := func(to int) {
		for to-from > maxPlain {
			emit(from+maxPlain, 0)
		}
	}
	for _, c := range cuts {
		if c > from && c < len(b) {
			upTo(c)
			emit(c, 0)
		}
	}
	upTo(len(b))
	emit(len(b), 1)
	return out
}

func relErr(got, want float64) float64 {
	if got == want {
		return 0
	}
	if want == 0 {
		return math.Inf(1)
	}
	return math.Abs(got-want) / math.Abs(want)
}

// doubleOK: within the format's 31-bit precision (one unit of a fraction >= 1/2
// scaled by 2^31-1 is a relative error below 2^-30); results in the subnormal
// range are additionally rounded to the 2^-1074 grid.
func doubleOK(got, want float64) bool {
	if math.IsNaN(got) || math.IsInf(got, 0) {
		return false
	}
	if got != 0 && want != 0 && (got < 0) != (want < 0) {
		return false
	}
	return math.Abs(got-want) <= math.Abs(want)*0x1p-30*(1+0x1p-20)+0x1p-1074 // 2^-20 slack: the decoder's own rounding
}

// RealDecode feeds wire bytes to a real stream and reads the values back with
// the real Get* calls. It returns the index of the first value that differs
// (-1 if none) and a description.
func RealDecode(raw []byte, vals []Val, enc bool, salt, dribble int, stt *Stats) (idx int, what string) {
	cur := 0
	defer func() {
		// a panic of the real decoder on well-formed input is a decoding failure of
		// the value being read, not a harness problem
		if r := recover(); r != nil {
			idx, what = cur, fmt.Sprintf("Get of %s panicked: %v", vals[cur].T, r)
		}
	}()
	dc := wire.NewDribbleConn("receiver", dribble)
	dc.Feed(raw)
	st := stream.NewStream(dc)
	if enc {
		if err := st.SetSymmetricKey(key(salt)); err != nil {
			return 0, "SetSymmetricKey: " + err.Error()
		}
	}
	m := message.NewMessageFromStream(st)
	for i, v := range vals {
		cur = i
		stt.Gets++
		switch v.T {
		case "char":
			c, err := m.GetChar(bg)
			if err != nil {
				return i, "GetChar: " + err.Error()
			}
			if c != v.C {
				return i, fmt.Sprintf("GetChar returned %d, sent %d", c, v.C)
			}
		case "int":
			var got int64
			var err error
			switch v.W {
			case "int32":
				var x int32
				x, err = m.GetInt32(bg)
				got = int64(x)
			case "uint32":
				var x uint32
				x, err = m.GetUint32(bg)
				got = int64(x)
			case "int":
				var x int
				x, err = m.GetInt(bg)
				got = int64(x)
			default:
				got, err = m.GetInt64(bg)
			}
			if err != nil {
				return i, "Get" + v.W + ": " + err.Error()
			}
			if got != v.I {
				return i, fmt.Sprintf("Get%s returned %d, sent %d", v.W, got, v.I)
			}
		case "double":
			got, err := m.GetDouble(bg)
			if err != nil {
				return i, "GetDouble: " + err.Error()
			}
			if !doubleOK(got, v.D) {
				return i, fmt.Sprintf("GetDouble returned %v (bits %016x), sent %v (bits %016x): relative error %.3g > 2^-30", got, math.Float64bits(got), v.D, math.Float64bits(v.D), relErr(got, v.D))
			}
			stt.Doubles++
			f, e := refcodec.C14DoubleParts(v.D)
			if got == refcodec.C14DoubleValue(f, e) {
				stt.DoubleExact++
			}
			if re := relErr(got, v.D); v.D != 0 && math.Abs(v.D) >= 0x1p-1022 && re > stt.MaxRelErr {
				stt.MaxRelErr = re
			}
		default:
			got, err := m.GetString(bg)
			if err != nil {
				return i, "GetString: " + err.Error()
			}
			want := refcodec.C14StringContent(v.S)
			if got != string(want) {
				return i, fmt.Sprintf("GetString returned %d bytes %.40q, sent %d bytes %.40q", len(got), got, len(want), want)
			}
		}
	}
	rest, err := m.GetRemainingBytes(bg)
	if err != nil {
		return len(vals) - 1, "after the last value: " + err.Error()
	}
	if len(rest) != 0 {
		return len(vals) - 1, fmt.Sprintf("%d bytes left unread after the last value", len(rest))
	}
	return -1, ""
}

func cutClass(cuts []int, starts []int, total int) string {
	if len(cuts) == 0 {
		return "nocut"
	}
	inside := false
	for _, c := range cuts {
		b := false
		for _, s := range starts {
			if s == c {
				b = true
			}
		}
		if !b {
			inside = true
		}
	}
	if inside {
		return "cut-inside-value"
	}
	return "cut-between-values"
}

// Run replays one behaviour under one variant. nil = the real code conforms.
func Run(sc *Scenario, v Variant, stt *Stats) *Diff {
	vals, err := Values(sc, v)
	if err != nil {
		return &Diff{Broken: true, Detail: err.Error()}
	}
	stt.Values += int64(len(vals))
	var want []byte
	var starts []int
	for i, val := range vals {
		starts = append(starts, len(want))
		enc := refEncode(val, sc.Enc)
		if len(enc) != len(sc.Layouts[i]) {
			return &Diff{Broken: true, Detail: fmt.Sprintf("value %d (%s): reference encoding has %d bytes, the model's layout %d", i, val, len(enc), len(sc.Layouts[i]))}
		}
		if v.K == 0 && !bytes.Equal(enc, toBytes(sc.Layouts[i])) {
			return &Diff{Broken: true, Detail: fmt.Sprintf("value %d (%s): reference encoder %x and model Layout %x disagree", i, val, enc, toBytes(sc.Layouts[i]))}
		}
		want = append(want, enc...)
	}
	typeAt := func(off int) (int, string) {
		idx := 0
		for i, s := range starts {
			if s <= off {
				idx = i
			}
		}
		return idx, vals[idx].T
	}

	// a: layout
	got, _, err := RealEncode(vals, sc.Enc, v.Salt, stt)
	if err != nil {
		return &Diff{Invariant: "Layout", Type: "message", Mode: mode(sc.Enc), Class: "sender-error", Detail: err.Error()}
	}
	if !bytes.Equal(got, want) && !doublesWithinOneUnit(got, want, vals, starts) {
		off := 0
		for off < len(got) && off < len(want) && got[off] == want[off] {
			off++
		}
		i, t := typeAt(off)
		if off >= len(want) {
			i, t = len(vals)-1, vals[len(vals)-1].T
		}
		lo, hi := starts[i], len(want)
		if i+1 < len(starts) {
			hi = starts[i+1]
		}
		g := got[min(lo, len(got)):min(hi, len(got))]
		return &Diff{Invariant: "Layout", Type: t, Mode: mode(sc.Enc), Class: "bytes",
			Detail: fmt.Sprintf("Put of %s wrote %x, the format prescribes %x (message: %d bytes written, %d prescribed)", vals[i], clip(g), clip(want[lo:hi]), len(got), len(want))}
	}

	// b: cut independence
	cuts := append([]int(nil), sc.Cuts...)
	sortInts(cuts)
	stt.Cuts += int64(len(cuts))
	raw := Reframe(want, cuts, sc.Enc, v.Salt)
	if i, msg := RealDecode(raw, vals, sc.Enc, v.Salt, v.Dribble, stt); i >= 0 {
		// does it also fail without any cut?
		var st2 Stats
		if j, _ := RealDecode(Reframe(want, nil, sc.Enc, v.Salt), vals, sc.Enc, v.Salt, 0, &st2); j >= 0 {
			return &Diff{Invariant: "RoundTrip", Type: vals[j].T, Mode: mode(sc.Enc), Class: "nocut",
				Detail: fmt.Sprintf("value %d (%s) in one frame: %s", j, vals[j], msg)}
		}
		return &Diff{Invariant: "CutIndependence", Type: vals[i].T, Mode: mode(sc.Enc), Class: cutClass(cuts, starts, len(want)),
			Detail: fmt.Sprintf("value %d (%s), %d bytes cut after %v: %s (decodes correctly from a single frame)", i, vals[i], len(want), cuts, msg)}
	}
	return nil
}

// doublesWithinOneUnit: the statement fixes the scale (2^31-1) and the shape
// (two integers) of a double, not how the scaled fraction is made integral
// (HTCondor truncates). Bytes that differ from the reference only in the
// fraction of a double, by less than one unit, are accepted.
func doublesWithinOneUnit(got, want []byte, vals []Val, starts []int) bool {
	if len(got) != len(want) {
		return false
	}
	for i, v := range vals {
		lo, hi := starts[i], len(want)
		if i+1 < len(starts) {
			hi = starts[i+1]
		}
		if bytes.Equal(got[lo:hi], want[lo:hi]) {
			continue
		}
		if v.T != "double" || hi-lo != 16 {
			return false
		}
		r := refcodec.C14Reader{B: got[lo:hi]}
		f, _ := r.Int()
		e, _ := r.Int()
		frac, exp := math.Frexp(v.D)
		if e != int64(exp) || f < math.MinInt32 || f > math.MaxInt32 || math.Abs(float64(f)-frac*refcodec.C14FracConst) >= 1 {
			return false
		}
	}
	return true
}

func clip(b []byte) []byte {
	if len(b) > 32 {
		return b[:32]
	}
	return b
}

func sortInts(a []int) {
	for i := 1; i < len(a); i++ {
		for j := i; j > 0 && a[j-1] > a[j]; j-- {
			a[j-1], a[j] = a[j], a[j-1]
		}
	}
}

func realEncodeStringBytes(content []byte, enc bool, salt int, stt *Stats) ([]byte, int, []byte, error) {
	conn := wire.NewBufConn("sender")
	st := stream.NewStream(conn)
	if enc {
		if err := st.SetSymmetricKey(key(salt)); err != nil {
			return nil, 0, nil, err
		}
	}
	m := message.NewMessageForStream(st)
	stt.Puts++
	if err := m.PutStringBytes(bg, content); err != nil {
		return nil, 0, nil, fmt.Errorf("PutStringBytes: %w", err)
	}
	if err := m.FinishMessage(bg); err != nil {
		return nil, 0, nil, fmt.Errorf("FinishMessage: %w", err)
	}
	raw := conn.TakeOut()
	frames, rest := refcodec.ParseFrames(raw)
	if len(rest) != 0 {
		return nil, 0, nil, fmt.Errorf("sender output does not parse as frames (%d bytes left)", len(rest))
	}
	var op *refcodec.Opener
	if enc {
		op = refcodec.NewOpener(key(salt), [32]byte{}, [32]byte{})
	}
	var out []byte
	for i, f := range frames {
		body := f.Body
		if enc {
			pt, err := op.Open(f)
			if err != nil {
				return nil, 0, nil, fmt.Errorf("frame %d does not open with the reference decryptor: %v", i, err)
			}
			body = pt
		}
		out = append(out, body...)
	}
	return out, len(frames), raw, nil
}
