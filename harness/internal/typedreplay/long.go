package typedreplay

// Long messages: CutIndependence of TypedValues.tla quantifies over EVERY cut
// set of the encoded byte string; TLC enumerates it for short value sequences,
// here the same statement is evaluated on the real reader for long mixed
// sequences (8 .. 300 values, > 64, > 512 and > 4096 bytes), where the reader's
// buffer is refilled, compacted and reused many times within one message:
//   (a) equal-size frames for every frame size k = 1 .. len,
//   (b) every single cut,
//   (c) seeded random multi-cut sets.
// The oracle is the one of Run: the reference encoder's bytes, re-framed by the
// reference codec, must decode through the real Get* calls to the values.

import (
	"bytes"
	"encoding/json"
	"fmt"
	"math/rand"
	"sync"

	"cedarverif/internal/core"
)

type LongCase struct {
	N    int    `json:"n"` // number of values
	Enc  bool   `json:"enc"`
	Salt int    `json:"salt"`
	Kind string `json:"kind"` // equal | single | random | fixed
	From int    `json:"from"` // equal: frame sizes From..To; single: cut positions From..To; random: set indices
	To   int    `json:"to"`
	Cuts []int  `json:"cuts,omitempty"` // fixed: one recorded cut set (replay)
	Cls  string `json:"cls,omitempty"`  // fixed: the kind of sweep the cut set came from
}

// longValues builds a seeded mixed value sequence; the same (n, salt) always
// gives the same values.
func longValues(n, salt int) []Val {
	r := rand.New(rand.NewSource(int64(salt)*7907 + int64(n)*104729 + 5))
	vals := make([]Val, 0, n)
	for i := 0; i < n; i++ {
		switch r.Intn(8) {
		case 0:
			vals = append(vals, Val{T: "char", C: byte(r.Intn(256))})
		case 1, 2, 3:
			var v int64
			if r.Intn(2) == 0 {
				v = intBoundaries[r.Intn(len(intBoundaries))]
			} else {
				v = randInt(r)
			}
			w := widths(v)
			vals = append(vals, Val{T: "int", I: v, W: w[r.Intn(len(w))]})
		case 4, 5:
			if r.Intn(3) == 0 {
				vals = append(vals, Val{T: "double", D: doubleBoundaries[r.Intn(len(doubleBoundaries))]})
			} else {
				vals = append(vals, Val{T: "double", D: randDouble(r)})
			}
		default:
			l := r.Intn(40)
			if n >= 64 && r.Intn(25) == 0 {
				l = 150 + r.Intn(600) // a few strings longer than a small buffer
			}
			vals = append(vals, Val{T: "string", S: randUTF8(r, l)})
		}
	}
	if n >= 64 { // make sure the > 512 / > 4096 byte regimes are reached
		vals[n/2] = Val{T: "string", S: randUTF8(r, 520+n)}
	}
	return vals
}

func longEncode(vals []Val, enc bool) ([]byte, []int) {
	var want []byte
	var starts []int
	for _, v := range vals {
		starts = append(starts, len(want))
		want = append(want, refEncode(v, enc)...)
	}
	return want, starts
}

func equalCuts(k, total int) []int {
	var cuts []int
	for p := k; p < total; p += k {
		cuts = append(cuts, p)
	}
	return cuts
}

func randomCuts(total, salt, idx int) []int {
	r := rand.New(rand.NewSource(int64(salt)*31337 + int64(idx)*977 + int64(total)))
	n := 2 + r.Intn(14)
	if idx%4 == 0 { // frames of similar size around a random length
		k := 2 + r.Intn(total/2+1)
		var cuts []int
		for p := k; p < total; p += k - r.Intn(2) {
			cuts = append(cuts, p)
		}
		return cuts
	}
	set := map[int]bool{}
	for len(set) < n && len(set) < total-1 {
		set[1+r.Intn(total-1)] = true
	}
	cuts := make([]int, 0, len(set))
	for c := range set {
		cuts = append(cuts, c)
	}
	sortInts(cuts)
	return cuts
}

func kindOf(lc LongCase) string {
	if lc.Kind == "fixed" && lc.Cls != "" {
		return lc.Cls
	}
	return lc.Kind
}

// LongCuts lists the cut sets of a case.
func LongCuts(lc LongCase, total int) [][]int {
	var out [][]int
	switch lc.Kind {
	case "equal":
		for k := lc.From; k <= lc.To && k <= total; k++ {
			out = append(out, equalCuts(k, total))
		}
	case "single":
		for p := lc.From; p <= lc.To && p < total; p++ {
			out = append(out, []int{p})
		}
	case "random":
		for i := lc.From; i <= lc.To; i++ {
			out = append(out, randomCuts(total, lc.Salt, i))
		}
	default:
		out = append(out, lc.Cuts)
	}
	return out
}

// RunLong evaluates every cut set of the case; it returns the number of cut
// sets decoded and the first difference.
func RunLong(lc LongCase, stt *Stats) (int, *Diff, []int) {
	vals := longValues(lc.N, lc.Salt)
	want, starts := longEncode(vals, lc.Enc)
	stt.Values += int64(len(vals))
	if lc.From <= 1 && lc.Kind != "random" {
		// layout of the long message through the real Put* calls, once per case family
		got, _, err := RealEncode(vals, lc.Enc, lc.Salt, stt)
		if err != nil {
			return 0, &Diff{Invariant: "Layout", Type: "message", Mode: mode(lc.Enc), Class: "long:sender-error", Detail: err.Error()}, nil
		}
		if !bytes.Equal(got, want) && !doublesWithinOneUnit(got, want, vals, starts) {
			off := 0
			for off < len(got) && off < len(want) && got[off] == want[off] {
				off++
			}
			idx := 0
			for i, s := range starts {
				if s <= off {
					idx = i
				}
			}
			return 0, &Diff{Invariant: "Layout", Type: vals[idx].T, Mode: mode(lc.Enc), Class: "long:bytes",
				Detail: fmt.Sprintf("message of %d values: %d bytes written, %d prescribed, first difference at byte %d in value %d (%s)", len(vals), len(got), len(want), off, idx, vals[idx])}, nil
		}
	}
	n := 0
	for _, cuts := range LongCuts(lc, len(want)) {
		n++
		stt.Cuts += int64(len(cuts))
		if i, msg := RealDecode(Reframe(want, cuts, lc.Enc, lc.Salt), vals, lc.Enc, lc.Salt, 0, stt); i >= 0 {
			var st2 Stats
			if j, m2 := RealDecode(Reframe(want, nil, lc.Enc, lc.Salt), vals, lc.Enc, lc.Salt, 0, &st2); j >= 0 {
				return n, &Diff{Invariant: "RoundTrip", Type: vals[j].T, Mode: mode(lc.Enc), Class: "long:nocut",
					Detail: fmt.Sprintf("message of %d values in one frame: value %d (%s): %s", len(vals), j, vals[j], m2)}, nil
			}
			desc := fmt.Sprintf("%d frames", len(cuts)+1)
			if kindOf(lc) == "equal" && len(cuts) > 0 {
				desc = fmt.Sprintf("equal frames of %d bytes", cuts[0])
			} else if len(cuts) <= 16 {
				desc = fmt.Sprintf("cut after %v", cuts)
			}
			return n, &Diff{Invariant: "CutIndependence", Type: vals[i].T, Mode: mode(lc.Enc), Class: "long:" + kindOf(lc),
				Detail: fmt.Sprintf("message of %d values / %d bytes, %s: value %d (%s, bytes %d..): %s (decodes correctly from a single frame)", len(vals), len(want), desc, i, vals[i], starts[i], msg)}, cuts
		}
	}
	return n, nil, nil
}

// LongCases splits the sweeps of every (n, mode) into chunks for the workers.
func LongCases(thorough bool, salt int) []LongCase {
	var out []LongCase
	ns := []int{8, 20, 64, 300}
	nRandom := 300
	if thorough {
		ns = []int{8, 20, 64, 128, 300, 700}
		nRandom = 3000
	}
	const chunk = 192
	for _, n := range ns {
		for _, enc := range []bool{false, true} {
			want, _ := longEncode(longValues(n, salt), enc)
			total := len(want)
			for from := 1; from <= total; from += chunk {
				to := from + chunk - 1
				out = append(out, LongCase{N: n, Enc: enc, Salt: salt, Kind: "equal", From: from, To: to},
					LongCase{N: n, Enc: enc, Salt: salt, Kind: "single", From: from, To: to})
			}
			for from := 0; from < nRandom; from += 50 {
				out = append(out, LongCase{N: n, Enc: enc, Salt: salt, Kind: "random", From: from, To: from + 49})
			}
		}
	}
	return out
}

// ReplayLong runs the long-message sweeps on all cores.
func ReplayLong(c *core.Ctx, cases []LongCase, stats *Stats) {
	var mu sync.Mutex
	sets, conform := int64(0), int64(0)
	sizes := map[string]int{}
	core.ParallelFor(len(cases), 16, func(i int) {
		lc := cases[i]
		var st Stats
		n, d, cuts := RunLong(lc, &st)
		k, _ := json.Marshal(lc)
		c.Eval("long:"+string(k), true)
		mu.Lock()
		stats.Add(&st)
		sets += int64(n)
		if d == nil {
			conform += int64(n)
		}
		if lc.From <= 1 && lc.Kind == "equal" {
			w, _ := longEncode(longValues(lc.N, lc.Salt), lc.Enc)
			sizes[fmt.Sprintf("%d values %s", lc.N, mode(lc.Enc))] = len(w)
		}
		mu.Unlock()
		if d != nil {
			fixed := lc
			if cuts != nil {
				fixed = LongCase{N: lc.N, Enc: lc.Enc, Salt: lc.Salt, Kind: "fixed", From: 2, Cuts: cuts, Cls: lc.Kind}
			}
			record(c, d, func() *Diff {
				var s2 Stats
				_, d2, _ := RunLong(lc, &s2)
				return d2
			}, map[string]any{"kind": "TypedValuesLong", "long": fixed})
		}
	})
	c.Add("long_message_cut_sets_decoded", sets)
	c.Add("long_message_cut_sets_conforming", conform)
	c.Set("long_message_bytes", sizes)
}
