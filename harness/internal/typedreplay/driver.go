package typedreplay

import (
	"bytes"
	"encoding/json"
	"fmt"
	"math/rand"
	"os"
	"sync"

	"cedarverif/internal/core"
	"cedarverif/internal/refcodec"
)

type Job struct {
	Sc *Scenario
	V  Variant
}

func Parse(c *core.Ctx, raws []json.RawMessage) []*Scenario {
	var out []*Scenario
	for _, r := range raws {
		var w struct {
			Scn *Scenario `json:"scn"`
		}
		if err := json.Unmarshal(r, &w); err != nil || w.Scn == nil {
			c.Broken("bad TypedValues scenario JSON: %v", err)
			return nil
		}
		if len(w.Scn.Vals) != len(w.Scn.Names) || len(w.Scn.Layouts) != len(w.Scn.Names) {
			c.Broken("TypedValues scenario with inconsistent lengths")
			return nil
		}
		out = append(out, w.Scn)
	}
	return out
}

func record(c *core.Ctx, d *Diff, rerun func() *Diff, scenario map[string]any) {
	if d.Broken {
		c.Broken("typedreplay: %s", d.Detail)
		return
	}
	d2 := rerun()
	if d2 == nil || d2.Broken || d2.Error() != d.Error() {
		c.Broken("non-reproducible difference: %v vs %v", d, d2)
		return
	}
	c.Fail(core.Failure{Signature: Signature(d), Detail: d.Error(), Scenario: scenario})
}

// ReplayAll runs the jobs on all cores; every difference is confirmed by an
// immediate second run before it is recorded.
func ReplayAll(c *core.Ctx, jobs []Job, stats *Stats) {
	var mu sync.Mutex
	conform := int64(0)
	core.ParallelFor(len(jobs), 16, func(i int) {
		j := jobs[i]
		var st Stats
		d := Run(j.Sc, j.V, &st)
		k, _ := json.Marshal(struct {
			N []string
			E bool
			C []int
			V Variant
		}{j.Sc.Names, j.Sc.Enc, j.Sc.Cuts, j.V})
		c.Eval(string(k), len(j.Sc.Cuts) > 0 || len(j.Sc.Names) > 1)
		mu.Lock()
		stats.Add(&st)
		if d == nil {
			conform++
		}
		mu.Unlock()
		if d != nil {
			record(c, d, func() *Diff { var s2 Stats; return Run(j.Sc, j.V, &s2) },
				map[string]any{"kind": "TypedValues", "scn": j.Sc, "variant": j.V})
		}
	})
	c.Add("traces_validated_against_impl", conform)
}

// ---------------------------------------------------------------------------
// strings of multi-frame length (Size(v, enc) of the model; beyond what TLC
// holds as explicit byte tuples)

type BigCase struct {
	Len   int   `json:"len"` // content bytes
	Enc   bool  `json:"enc"`
	Cuts  []int `json:"cuts"`
	Bytes bool  `json:"bytes"` // PutStringBytes instead of PutString
	Salt  int   `json:"salt"`
	Pre   bool  `json:"pre"` // an integer before and a char after the string
}

func RunBig(bc BigCase, stt *Stats) *Diff {
	r := rand.New(rand.NewSource(int64(bc.Salt)*31 + int64(bc.Len)))
	content := randUTF8(r, bc.Len)
	vals := []Val{{T: "string", S: content}}
	if bc.Pre {
		vals = []Val{{T: "int", I: -2, W: "int32"}, {T: "string", S: content}, {T: "char", C: 0xAD}}
	}
	var want []byte
	for _, v := range vals {
		want = append(want, refEncode(v, bc.Enc)...)
	}
	// Size(v, enc) of the model
	size := bc.Len + 1
	if bc.Enc {
		size += 8
	}
	if len(refEncode(Val{T: "string", S: content}, bc.Enc)) != size {
		return &Diff{Broken: true, Detail: "reference encoder disagrees with the model's Size"}
	}
	stt.Values += int64(len(vals))
	var got, raw []byte
	var err error
	if bc.Bytes && !bc.Pre {
		got, _, raw, err = realEncodeStringBytes(content, bc.Enc, bc.Salt, stt)
	} else {
		got, _, raw, err = realEncodeRaw(vals, bc.Enc, bc.Salt, stt)
	}
	cls := "len" + lenClass(bc.Len)
	if err != nil {
		return &Diff{Invariant: "Layout", Type: "string", Mode: mode(bc.Enc), Class: "sender-error:" + cls, Detail: err.Error()}
	}
	if !bytes.Equal(got, want) {
		off := 0
		for off < len(got) && off < len(want) && got[off] == want[off] {
			off++
		}
		return &Diff{Invariant: "Layout", Type: "string", Mode: mode(bc.Enc), Class: "bytes:" + cls,
			Detail: fmt.Sprintf("PutString of %d content bytes wrote %d bytes, the format prescribes %d; first difference at byte %d", bc.Len, len(got), len(want), off)}
	}
	// the real sender's own frames, read back by the real Get* calls
	if len(bc.Cuts) == 0 {
		if i, msg := RealDecode(raw, vals, bc.Enc, bc.Salt, 0, stt); i >= 0 {
			return &Diff{Invariant: "RoundTrip", Type: vals[i].T, Mode: mode(bc.Enc), Class: "real-frames:" + cls,
				Detail: fmt.Sprintf("string of %d content bytes written by the real Put* and read from its own frames: value %d: %s", bc.Len, i, msg)}
		}
	}
	stt.Cuts += int64(len(bc.Cuts))
	if i, msg := RealDecode(Reframe(want, bc.Cuts, bc.Enc, bc.Salt), vals, bc.Enc, bc.Salt, 0, stt); i >= 0 {
		var st2 Stats
		if j, _ := RealDecode(Reframe(want, nil, bc.Enc, bc.Salt), vals, bc.Enc, bc.Salt, 0, &st2); j >= 0 {
			return &Diff{Invariant: "RoundTrip", Type: vals[j].T, Mode: mode(bc.Enc), Class: "nocut:" + cls, Detail: msg}
		}
		return &Diff{Invariant: "CutIndependence", Type: vals[i].T, Mode: mode(bc.Enc), Class: "cut-inside-value:" + cls,
			Detail: fmt.Sprintf("string of %d content bytes cut after %v: %s", bc.Len, bc.Cuts, msg)}
	}
	return nil
}

func lenClass(n int) string {
	switch {
	case n < 16384-9:
		return "<Target"
	case n < 1048576-41:
		return ">=Target"
	default:
		return ">=Max"
	}
}

// BigCases enumerates string lengths around the typed layer's thresholds and
// cut positions inside the length prefix, at its end, mid-string and around the
// terminator.
func BigCases(thorough bool, salt int) []BigCase {
	lens := []int{16366, 16374, 16375, 16376, 16383, 16384, 20000, 70001}
	if thorough {
		lens = append(lens, 1048534, 1048566, 1048567, 1048575, 1048576, 1048577, 1100003, 2097200)
	}
	var out []BigCase
	if !thorough {
		// multi-frame strings (> 1 MiB) in the quick tier: layout byte for byte, round trip
		// from the real frames and from reference re-cuts, alone and between other values
		for _, n := range []int{1048543, 1048576, 1048609, 2200003} {
			for _, enc := range []bool{false, true} {
				p := 0
				if enc {
					p = 8
				}
				out = append(out,
					BigCase{Len: n, Enc: enc, Salt: salt},
					BigCase{Len: n, Enc: enc, Salt: salt, Bytes: true},
					BigCase{Len: n, Enc: enc, Salt: salt, Pre: true},
					BigCase{Len: n, Enc: enc, Salt: salt, Pre: true, Cuts: []int{p + 3, p + 8 + n/2}},
					BigCase{Len: n, Enc: enc, Salt: salt, Cuts: []int{p + n - 1}})
			}
		}
	}
	for _, n := range lens {
		for _, enc := range []bool{false, true} {
			total := n + 1
			pos := []int{1, n / 2, n - 1, n}
			if enc {
				total += 8
				pos = []int{1, 7, 8, 9, 8 + n/2, 8 + n - 1, 8 + n}
			}
			_ = total
			out = append(out, BigCase{Len: n, Enc: enc, Salt: salt}, BigCase{Len: n, Enc: enc, Salt: salt, Bytes: true})
			for i, p := range pos {
				out = append(out, BigCase{Len: n, Enc: enc, Cuts: []int{p}, Salt: salt, Pre: i%2 == 1})
				if thorough || i%3 == 0 {
					for _, q := range pos[i+1:] {
						out = append(out, BigCase{Len: n, Enc: enc, Cuts: []int{p, q}, Salt: salt})
					}
				}
			}
		}
	}
	return out
}

func ReplayBig(c *core.Ctx, cases []BigCase, stats *Stats) {
	var mu sync.Mutex
	conform := int64(0)
	core.ParallelFor(len(cases), 16, func(i int) {
		bc := cases[i]
		var st Stats
		d := RunBig(bc, &st)
		k, _ := json.Marshal(bc)
		c.Eval("big:"+string(k), true)
		mu.Lock()
		stats.Add(&st)
		if d == nil {
			conform++
		}
		mu.Unlock()
		if d != nil {
			record(c, d, func() *Diff { var s2 Stats; return RunBig(bc, &s2) },
				map[string]any{"kind": "TypedValuesBig", "big": bc})
		}
	})
	c.Add("long_string_cases_conforming", conform)
}

// ReplayFile re-runs one recorded failure.
func ReplayFile(c *core.Ctx) bool {
	if c.Replay == "" {
		return false
	}
	b, err := os.ReadFile(c.Replay)
	if err != nil {
		c.Broken("cannot read replay file: %v", err)
		return true
	}
	var rf struct {
		Scenario struct {
			Kind    string    `json:"kind"`
			Scn     *Scenario `json:"scn"`
			Variant Variant   `json:"variant"`
			Big     *BigCase  `json:"big"`
			Long    *LongCase `json:"long"`
		} `json:"scenario"`
	}
	if err := json.Unmarshal(b, &rf); err != nil {
		c.Broken("replay file %s unreadable: %v", c.Replay, err)
		return true
	}
	var st Stats
	switch {
	case rf.Scenario.Kind == "TypedValues" && rf.Scenario.Scn != nil:
		ReplayAll(c, []Job{{rf.Scenario.Scn, rf.Scenario.Variant}}, &st)
	case rf.Scenario.Kind == "TypedValuesBig" && rf.Scenario.Big != nil:
		ReplayBig(c, []BigCase{*rf.Scenario.Big}, &st)
	case rf.Scenario.Kind == "TypedValuesLong" && rf.Scenario.Long != nil:
		ReplayLong(c, []LongCase{*rf.Scenario.Long}, &st)
	default:
		c.Broken("replay file %s is not a TypedValues scenario", c.Replay)
	}
	return true
}

var _ = refcodec.C14Int
