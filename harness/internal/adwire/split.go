package adwire

import (
	"encoding/json"
	"fmt"
	"strings"
	"sync"

	"cedarverif/internal/core"

	"github.com/bbockelm/cedar/message"
)

// SplitRow is one item text enumerated by Gen_ItemSplit with the reference split.
type SplitRow struct {
	T     []string `json:"t"`
	Name  []string `json:"name"`
	Value []string `json:"value"`
	Sp    string   `json:"sp"`
	Ev    bool     `json:"ev"`
}

// ParseSplitRows decodes the generator output.
func ParseSplitRows(c *core.Ctx, raws []json.RawMessage) []SplitRow {
	out := make([]SplitRow, 0, len(raws))
	for _, r := range raws {
		var s struct {
			Scn SplitRow `json:"scn"`
		}
		if err := json.Unmarshal(r, &s); err != nil || len(s.Scn.T) == 0 {
			c.Broken("bad ItemSplit row %s: %v", string(r), err)
			return nil
		}
		out = append(out, s.Scn)
	}
	return out
}

func splitChars(tok []string, blank string) string {
	var b strings.Builder
	for i, t := range tok {
		switch t {
		case "n":
			b.WriteByte("AbC_d"[i%5])
		case "s":
			b.WriteString(blank)
		case "eq":
			b.WriteByte('=')
		case "v":
			b.WriteByte('7')
		case "q":
			b.WriteByte('"')
		}
	}
	return b.String()
}

// SplitCase is the replayable scenario of one raw item text.
type SplitCase struct {
	Kind    string `json:"kind"` // "ItemSplit"
	Item    string `json:"item"`
	Sender  string `json:"sender"`
	State   string `json:"state"`
	Spacing string `json:"spacing"`
	EqInVal bool   `json:"eqInValue"`
}

// RefSplit is the documented design: name = trimmed text before the FIRST '=',
// value = the trimmed rest.
func RefSplit(item string) (name, value string, ok bool) {
	i := strings.IndexByte(item, '=')
	if i < 0 {
		return "", "", false
	}
	return strings.Trim(item[:i], " \t"), strings.Trim(item[i+1:], " \t"), true
}

func spacingOf(item string) string {
	i := strings.IndexByte(item, '=')
	if i < 0 {
		return "noEq"
	}
	bl := func(k int) bool { return k >= 0 && k < len(item) && (item[k] == ' ' || item[k] == '\t') }
	switch {
	case bl(i-1) && bl(i-2):
		return "blanksBeforeEq"
	case bl(0):
		return "leadingBlank"
	case bl(i-1) && bl(i+1):
		return "canonical"
	case bl(i - 1):
		return "leftTight"
	case bl(i + 1):
		return "rightTight"
	}
	return "tight"
}

func isIdent(s string) bool {
	if s == "" {
		return false
	}
	for i := 0; i < len(s); i++ {
		c := s[i]
		if !(c == '_' || (c|0x20) >= 'a' && (c|0x20) <= 'z' || (i > 0 && c >= '0' && c <= '9')) {
			return false
		}
	}
	return true
}

// SplitStats is the coverage of the item-split replay.
type SplitStats struct {
	mu        sync.Mutex
	BySpacing map[string]int64
	EqInValue int64
	InScope   int64 // name is an identifier and the full parser accepts the value
	Outside   int64
	Conform   int64
	ModelBad  []string
	ModelBadN int64
}

// CheckSplit sends one raw item through the real wire path and compares the three
// receivers with the reference split. inScope=false: the statement says nothing.
func CheckSplit(sc SplitCase, key []byte) (inScope bool, d *AdDiff) {
	name, val, ok := RefSplit(sc.Item)
	sig := func(reader, what string) map[string]string {
		return map[string]string{"spec": "ItemSplit", "action": "Receive", "reader": reader,
			"spacing": sc.Spacing, "eqInValue": fmt.Sprint(sc.EqInVal), "what": what}
	}
	raw, err := Send(sc.State, key, func(m *message.Message) error {
		if sc.Sender == "PutClassAdRawBytes" {
			buf := append(make([]byte, 0, len(sc.Item)+8), sc.Item...)
			return m.PutClassAdRawBytes(bg, [][]byte{buf}, "Machine", "Job")
		}
		return m.PutClassAdRaw(bg, []string{sc.Item}, "Machine", "Job")
	})
	if err != nil {
		return false, &AdDiff{sig("sender", "error"), fmt.Sprintf("%s(%q) fails: %v", sc.Sender, sc.Item, err)}
	}
	// the raw-text and the skipping receiver never look inside the item
	rr := Receive("raw", sc.State, key, raw)
	if rr.Err != nil || len(rr.Rest) != 0 || rr.Raw != sc.Item+"\nMyType = \"Machine\"\nTargetType = \"Job\"\n" {
		return true, &AdDiff{sig("raw", "raw text"), fmt.Sprintf("item %q: GetClassAdRaw returns %q, %d bytes unread, err %v", sc.Item, rr.Raw, len(rr.Rest), rr.Err)}
	}
	rs := Receive("skip", sc.State, key, raw)
	if rs.Err != nil || len(rs.Rest) != 0 {
		return true, &AdDiff{sig("skip", "consumption"), fmt.Sprintf("item %q: SkipClassAdRaw leaves %d bytes unread, err %v", sc.Item, len(rs.Rest), rs.Err)}
	}
	o := Ask(val)
	if !ok || !isIdent(name) || !o.Accepts {
		return false, nil
	}
	for _, kind := range []string{"parse", "parseMax"} {
		r := Receive(kind, sc.State, key, raw)
		if r.Err != nil {
			return true, &AdDiff{sig(kind, "error"), fmt.Sprintf("item %q is attribute %q with value text %q (first '=', blanks trimmed), which the full parser accepts; %s fails where the raw and skipping receivers succeed: %v", sc.Item, name, val, kind, r.Err)}
		}
		if len(r.Rest) != 0 || r.RestErr != nil {
			return true, &AdDiff{sig(kind, "consumption"), fmt.Sprintf("item %q: %s leaves %d bytes unread", sc.Item, kind, len(r.Rest))}
		}
		got := map[string]bool{}
		for _, n := range r.Ad.GetAttributes() {
			got[strings.ToLower(n)] = true
		}
		want := map[string]bool{strings.ToLower(name): true, "mytype": true, "targettype": true}
		if ds := setDiffQ(want, got); ds != "" {
			return true, &AdDiff{sig(kind, "attribute set"), fmt.Sprintf("item %q is attribute %q (first '=', blanks trimmed); %s reconstructs a different attribute set: %s", sc.Item, name, kind, ds)}
		}
		e, _ := r.Ad.Lookup(name)
		if same, gotv := SameValue(e, &o); !same {
			return true, &AdDiff{sig(kind, "value"), fmt.Sprintf("item %q: value text %q, the full parser assigns %s, %s decoded %s", sc.Item, val, o.Canon, kind, gotv)}
		}
	}
	return true, nil
}

func setDiffQ(want, got map[string]bool) string {
	var miss, extra []string
	for k := range want {
		if !got[k] {
			miss = append(miss, fmt.Sprintf("%q", k))
		}
	}
	for k := range got {
		if !want[k] {
			extra = append(extra, fmt.Sprintf("%q", k))
		}
	}
	if len(miss)+len(extra) == 0 {
		return ""
	}
	return fmt.Sprintf("missing %v, unexpected %v", miss, extra)
}

func runSplitCase(c *core.Ctx, st *SplitStats, sc SplitCase, key []byte) {
	in, d := CheckSplit(sc, key)
	b, _ := json.Marshal(sc)
	c.Eval(string(b), in)
	st.mu.Lock()
	st.BySpacing[sc.Spacing]++
	if sc.EqInVal {
		st.EqInValue++
	}
	if in {
		st.InScope++
	} else {
		st.Outside++
	}
	if d == nil {
		st.Conform++
	}
	st.mu.Unlock()
	if d == nil {
		return
	}
	_, d2 := CheckSplit(sc, key)
	if d2 == nil || fmt.Sprint(d2.Sig) != fmt.Sprint(d.Sig) {
		c.Broken("non-reproducible item-split difference on %q: %v vs %v", sc.Item, d, d2)
		return
	}
	c.Fail(core.Failure{Signature: d.Sig, Detail: d.Detail, Scenario: sc})
}

// HandSplitItems expands the classes beyond the enumerated length: values that
// contain '=', "==" and " = " inside strings and function calls, tabs, long runs.
func HandSplitItems() []string {
	return []string{
		`A = 1`, `A=1`, `A =1`, `A= 1`, `  A = 1`, `A  = 1`, "A\t = 1", "A\t=\t1", "\tA = 1", `A = 1  `, `A   =   "x"`,
		`A=strcat("x = y")`, `A =f(b == 1, "p = q")`, `A = "a = b"`, `A=" = "`, `A= " = "`, `A =" = "`, `A = " = "`,
		`A = B == 1`, `A=B==1`, `A = B =?= C`, `A=B =!= C`, `A = (X = = 1)`, `A = ifThenElse(x == 1, "a=b", "c = d")`,
		`Requirements=(TARGET.Arch == "X86_64") && (TARGET.OpSys == "LINUX")`, `Rank =  Memory >= 1024`,
		`A = [ b = 1; c = 2 ]`, `A=[b = 1]`, `A = {"x = y", "="}`, `Long_Attr_Name9 =   7`, `a_b = "=="`,
	}
}

// ReplaySplit runs every enumerated item text and the hand-expanded ones.
func ReplaySplit(c *core.Ctx, rows []SplitRow) *SplitStats {
	st := &SplitStats{BySpacing: map[string]int64{}}
	key := Key(fmt.Sprint(c.Seed))
	var cases []SplitCase
	for i, r := range rows {
		blank := " "
		if (int64(i)+c.Seed)%3 == 0 {
			blank = "\t"
		}
		item := splitChars(r.T, blank)
		// the model's reference split against the Go reference (a defect of the specification, never a violation)
		n, v, _ := RefSplit(item)
		if n != splitChars2(r.Name, r.T, blank) || len(v) != len(splitChars(r.Value, blank)) || spacingOf(item) != r.Sp {
			st.ModelBadN++
			if len(st.ModelBad) < 5 {
				st.ModelBad = append(st.ModelBad, fmt.Sprintf("%q: model name %v value %v spacing %s, reference %q %q %s", item, r.Name, r.Value, r.Sp, n, v, spacingOf(item)))
			}
		}
		sender := []string{"PutClassAdRaw", "PutClassAdRawBytes"}[i%2]
		state := []string{NoKey, Enc}[(i/2)%2]
		cases = append(cases, SplitCase{Kind: "ItemSplit", Item: item, Sender: sender, State: state, Spacing: r.Sp, EqInVal: r.Ev})
	}
	for i, it := range HandSplitItems() {
		for _, state := range []string{NoKey, Enc} {
			cases = append(cases, SplitCase{Kind: "ItemSplit", Item: it, Sender: []string{"PutClassAdRaw", "PutClassAdRawBytes"}[i%2],
				State: state, Spacing: spacingOf(it), EqInVal: strings.Count(it, "=") >= 2})
		}
	}
	core.ParallelFor(len(cases), 16, func(i int) { runSplitCase(c, st, cases[i], key) })
	return st
}

// the name tokens are a sub-sequence of the text: render them at their own positions
func splitChars2(name, text []string, blank string) string {
	full := splitChars(text, blank)
	i := strings.IndexByte(full, '=')
	if i < 0 {
		return ""
	}
	return strings.Trim(full[:i], " \t")
}

// Publish writes the item-split coverage into the evidence.
func (st *SplitStats) Publish(c *core.Ctx) {
	c.Set("item_split_texts_by_spacing_class", st.BySpacing)
	c.Set("item_split_texts_with_eq_inside_the_value", st.EqInValue)
	c.Set("item_split_texts_in_scope", st.InScope)
	c.Set("item_split_texts_outside_statement", st.Outside)
	c.Add("traces_validated_against_impl", st.Conform)
	if st.ModelBadN > 0 {
		c.Broken("ItemSplit.tla disagrees with the reference split on %d texts, e.g. %s", st.ModelBadN, strings.Join(st.ModelBad, "; "))
	}
	for _, sp := range []string{"canonical", "tight", "leftTight", "rightTight", "leadingBlank", "blanksBeforeEq"} {
		if st.BySpacing[sp] == 0 {
			c.Broken("no item text of spacing class %s", sp)
		}
	}
}

// ReplaySplitCase re-runs one recorded item-split case.
func ReplaySplitCase(c *core.Ctx, raw json.RawMessage) {
	var sc SplitCase
	if err := json.Unmarshal(raw, &sc); err != nil {
		c.Broken("bad item-split scenario: %v", err)
		return
	}
	st := &SplitStats{BySpacing: map[string]int64{}}
	runSplitCase(c, st, sc, Key(fmt.Sprint(c.Seed)))
	c.Add("traces_validated_against_impl", st.Conform)
}
