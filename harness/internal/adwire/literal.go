package adwire

import (
	"encoding/json"
	"fmt"
	"math/rand"
	"strings"
	"sync"

	"cedarverif/internal/core"

	"github.com/bbockelm/cedar/message"
)

// LitRow is one text enumerated by Gen_LiteralShortcut with the model's prediction.
type LitRow struct {
	T []string `json:"t"` // tokens
	C string   `json:"c"` // grammar class
	F string   `json:"f"` // fast-path branch of the intended design
	O bool     `json:"o"` // malformed number outside the statement
}

type litScn struct {
	Scn LitRow `json:"scn"`
}

// ParseLitRows decodes the generator output.
func ParseLitRows(c *core.Ctx, raws []json.RawMessage) []LitRow {
	out := make([]LitRow, 0, len(raws))
	for _, r := range raws {
		var s litScn
		if err := json.Unmarshal(r, &s); err != nil || len(s.Scn.T) == 0 {
			c.Broken("bad LiteralShortcut row %s: %v", string(r), err)
			return nil
		}
		out = append(out, s.Scn)
	}
	return out
}

var (
	trueWords  = []string{"true", "TRUE", "True", "tRuE", "trUE"}
	falseWords = []string{"false", "FALSE", "False", "fAlSe", "falSE"}
)

// Concretise maps tokens to characters. variant 0 is the canonical mapping; other
// variants pick, per token, a member of the token's character class.
func Concretise(tok []string, variant int, seed int64) string {
	var rng *rand.Rand
	if variant != 0 {
		rng = rand.New(rand.NewSource(seed))
	}
	pick := func(canon string, alts []string) string {
		if rng == nil {
			return canon
		}
		return alts[rng.Intn(len(alts))]
	}
	var b strings.Builder
	for _, t := range tok {
		switch t {
		case "d":
			b.WriteString(pick("7", []string{"1", "2", "3", "4", "5", "6", "7", "8", "9"}))
		case "z":
			b.WriteByte('0')
		case "m":
			b.WriteByte('-')
		case "p":
			b.WriteByte('+')
		case "dot":
			b.WriteByte('.')
		case "e":
			b.WriteString(pick("e", []string{"e", "E"}))
		case "x":
			b.WriteString(pick("x", []string{"x", "X"}))
		case "q":
			b.WriteByte('"')
		case "bs":
			b.WriteByte('\\')
		case "n":
			b.WriteByte('n')
		case "T":
			b.WriteString(pick("true", trueWords))
		case "F":
			b.WriteString(pick("false", falseWords))
		case "s":
			b.WriteString(pick(" ", []string{" ", "\t"}))
		case "lp":
			b.WriteByte('(')
		case "rp":
			b.WriteByte(')')
		default:
			b.WriteString("?" + t + "?")
		}
	}
	return b.String()
}

// LitStats is the coverage the literal replay measured.
type LitStats struct {
	mu            sync.Mutex
	ByClass       map[string]int64 // model class -> texts
	ByBranch      map[string]int64 // model fast-path branch -> texts
	ByClassBranch map[string]int64
	Accepted      int64 // concrete texts the full parser assigns an expression
	Rejected      int64 // outside the statement
	OutsideTaken  int64 // malformed numbers the real fast path decoded anyway (outside the statement)
	FallbackTaken int64 // texts the parser rejects that the real decoder accepted through the old-string fallback
	BranchDrift   int64 // parser-rejected texts on which the real decoder's accept/reject differs from the model's fast-path transcription
	ModelOracle   []string
	ModelOracleN  int64
	Conform       int64
}

func newLitStats() *LitStats {
	return &LitStats{ByClass: map[string]int64{}, ByBranch: map[string]int64{}, ByClassBranch: map[string]int64{}}
}

// DecodeOne sends `A = <text>` through the real wire path (PutClassAdRaw on a
// real stream, GetClassAd on the peer) in the given state.
func DecodeOne(state string, key []byte, text string) Recv {
	raw, err := Send(state, key, func(m *message.Message) error {
		return m.PutClassAdRaw(bg, []string{"A = " + text}, "", "")
	})
	if err != nil {
		return Recv{Kind: "parse", Err: fmt.Errorf("send: %w", err)}
	}
	return Receive("parse", state, key, raw)
}

// LitCase is the replayable scenario of one literal text.
type LitCase struct {
	Kind    string   `json:"kind"` // "LiteralShortcut"
	Tokens  []string `json:"tokens,omitempty"`
	Text    string   `json:"text"`
	State   string   `json:"state"`
	Class   string   `json:"class,omitempty"`
	Branch  string   `json:"branch,omitempty"`
	Outside bool     `json:"outside,omitempty"`
}

// LitDiff is a conformance difference on one text.
type LitDiff struct {
	Got    string
	Kind   string // kind of the decoded value, or "error"
	Detail string
}

// CheckText decodes one text on the real code and compares with the oracle.
// ok=false with a nil diff means the text is outside the statement.
func CheckText(lc LitCase, key []byte) (o Oracle, r Recv, d *LitDiff) {
	o = Ask(lc.Text)
	r = DecodeOne(lc.State, key, lc.Text)
	if !o.Accepts {
		return o, r, nil
	}
	if r.Err != nil {
		return o, r, &LitDiff{Kind: "error", Got: r.Err.Error(),
			Detail: fmt.Sprintf("value text %q: the full parser assigns %s but GetClassAd fails: %v", lc.Text, o.Canon, r.Err)}
	}
	names := r.Ad.GetAttributes()
	e, ok := r.Ad.Lookup("A")
	if !ok || len(names) != 1 {
		return o, r, &LitDiff{Kind: "missing", Got: fmt.Sprint(names),
			Detail: fmt.Sprintf("value text %q: decoded ad has attributes %v, want exactly [A]", lc.Text, names)}
	}
	same, got := SameValue(e, &o)
	if !same {
		want := o.Canon
		if o.Lit != nil {
			want = o.Lit.String()
		}
		return o, r, &LitDiff{Kind: KindOf(e), Got: got,
			Detail: fmt.Sprintf("value text %q: the full parser assigns %s, GetClassAd decoded %s", lc.Text, want, got)}
	}
	if len(r.Rest) != 0 || r.RestErr != nil {
		return o, r, &LitDiff{Kind: "leftover", Got: fmt.Sprint(len(r.Rest)),
			Detail: fmt.Sprintf("value text %q: %d bytes of the message left unread (%v)", lc.Text, len(r.Rest), r.RestErr)}
	}
	return o, r, nil
}

// LitSignature is the stable abstract signature of a literal-decoding failure.
func LitSignature(text string, d *LitDiff) map[string]string {
	return map[string]string{"spec": "LiteralShortcut", "action": "Decode",
		"shape": ShapeOf(text), "got": d.Kind}
}

// ReplayLiterals runs every enumerated text (canonical concretisation on a
// plain stream, one seeded concretisation on an encrypting stream) and records
// failures, coverage and the model/oracle cross-check.
func ReplayLiterals(c *core.Ctx, rows []LitRow) *LitStats {
	st := newLitStats()
	key := Key(fmt.Sprint(c.Seed))
	for _, r := range rows {
		st.ByClass[r.C]++
		st.ByBranch[r.F]++
		st.ByClassBranch[r.C+"/"+r.F]++
	}
	core.ParallelFor(len(rows), 16, func(i int) {
		row := rows[i]
		for variant := 0; variant < 2; variant++ {
			lc := LitCase{Kind: "LiteralShortcut", Tokens: row.T, Class: row.C, Branch: row.F, Outside: row.O,
				Text: Concretise(row.T, variant, c.Seed*1_000_003+int64(i)), State: NoKey}
			if variant == 1 {
				lc.State = Enc
			}
			runLitCase(c, st, lc, key, true)
		}
	})
	return st
}

func runLitCase(c *core.Ctx, st *LitStats, lc LitCase, key []byte, fromModel bool) {
	o, r, d := CheckText(lc, key)
	c.Eval(lc.State+"|"+lc.Text, o.Accepts)
	st.mu.Lock()
	defer st.mu.Unlock()
	if fromModel {
		// the model's grammar against the oracle (a disagreement is a defect of the
		// specification, never a violation)
		bad := ""
		switch {
		case o.Accepts && o.Class != lc.Class:
			bad = fmt.Sprintf("text %q: model class %s, full parser says %s", lc.Text, lc.Class, o.Class)
		case !o.Accepts && lc.Class != "notLiteral":
			bad = fmt.Sprintf("text %q: model class %s, full parser rejects the text (%v)", lc.Text, lc.Class, o.Err)
		case o.Accepts && lc.Outside:
			bad = fmt.Sprintf("text %q: model says outside the grammar, full parser accepts", lc.Text)
		}
		if bad != "" {
			st.ModelOracleN++
			if len(st.ModelOracle) < 20 {
				st.ModelOracle = append(st.ModelOracle, bad)
			}
		}
	}
	if !o.Accepts {
		st.Rejected++
		if r.Err == nil {
			if lc.Outside {
				st.OutsideTaken++
			} else {
				st.FallbackTaken++
			}
		}
		if fromModel && (r.Err == nil) != (lc.Branch != "none") && !(r.Err == nil && strings.HasPrefix(strings.TrimSpace(lc.Text), `"`)) {
			st.BranchDrift++
		}
		return
	}
	st.Accepted++
	if d == nil {
		st.Conform++
		return
	}
	// confirm by an immediate second run (DESIGN section 5 (ii))
	st.mu.Unlock()
	_, _, d2 := CheckText(lc, key)
	st.mu.Lock()
	if d2 == nil || d2.Detail != d.Detail {
		c.Broken("non-reproducible literal difference on %q: %v vs %v", lc.Text, d, d2)
		return
	}
	c.Fail(core.Failure{Signature: LitSignature(lc.Text, d), Detail: d.Detail, Scenario: lc})
}

// RunLitCases runs extra concrete texts that do not come from TLC's enumeration
// of the token alphabet but from the Go expansion of its classes (numeric
// extremes, long digit strings): same check, no model cross-check.
func RunLitCases(c *core.Ctx, st *LitStats, texts []string) {
	key := Key(fmt.Sprint(c.Seed))
	core.ParallelFor(len(texts), 16, func(i int) {
		for _, state := range []string{NoKey, Enc} {
			runLitCase(c, st, LitCase{Kind: "LiteralShortcut", Text: texts[i], State: state}, key, false)
		}
	})
}

// Publish writes the literal coverage into the evidence.
func (st *LitStats) Publish(c *core.Ctx) {
	c.Set("literal_texts_by_model_class", st.ByClass)
	c.Set("literal_texts_by_model_fastpath_branch", st.ByBranch)
	c.Set("literal_texts_by_class_and_branch", st.ByClassBranch)
	c.Set("literal_concrete_texts_parser_accepts", st.Accepted)
	c.Set("literal_concrete_texts_outside_statement", st.Rejected)
	c.Set("literal_outside_malformed_numbers_decoded_by_real_fast_path", st.OutsideTaken)
	c.Set("literal_outside_texts_accepted_by_old_string_fallback", st.FallbackTaken)
	c.Set("literal_fastpath_transcription_drift", st.BranchDrift)
	c.Add("traces_validated_against_impl", st.Conform)
	c.Set("literal_model_vs_full_parser_disagreements", st.ModelOracleN)
	if st.ModelOracleN > 0 {
		c.Broken("LiteralShortcut.tla disagrees with the full parser on %d texts (specification defect), e.g. %s",
			st.ModelOracleN, strings.Join(st.ModelOracle[:min(5, len(st.ModelOracle))], "; "))
	}
	for _, cls := range []string{"bool", "int", "real", "simpleString", "notLiteral"} {
		if st.ByClass[cls] == 0 {
			c.Broken("no enumerated text of model class %s: shortcut branch not exercised", cls)
		}
	}
	for _, br := range []string{"bool", "int", "real", "simpleString", "none"} {
		if st.ByBranch[br] == 0 {
			c.Broken("no enumerated text takes fast-path branch %s", br)
		}
	}
}

// NumericExtremes expands the digit / sign / dot / exponent classes into the
// extreme members the token enumeration cannot reach by length.
func NumericExtremes() []string {
	return []string{
		"9223372036854775807", "-9223372036854775807", "-9223372036854775808", "9223372036854775808",
		"-9223372036854775809", "18446744073709551616", "99999999999999999999",
		"2147483647", "-2147483648", "4294967296",
		"1.7976931348623157e308", "-1.7976931348623157e308", "1.0e400", "-1.0e400", "4.9e-324", "1.0e-400",
		"2.2250738585072014e-308", "0.1", "0.30000000000000004", "123456789.123456789", "1e21", "1E+21", "1e-7",
		"1.5e+3", "1.5E-3", "-0.0", "-0", "0.0", "00.5", "3.", "3.e2", "007", "-007", "0x10", "0x1.8p1", "0X1P-2",
		"1_000", "1_0.5", "+5", "+5.5", "- 5", "-  5.5", "-\t5", "5 ", " 5", "\t5.5\t",
		"tRuE", " TRUE ", "\tfalse\t", "True", "FALSE", "truE ",
		"Infinity", "-Infinity", "NaN", "inf", "-inf", "-Inf.", "nan.",
		`"" ""`, `"a" "b"`, `"a"  "b"`, `"a" + "b"`, `"a" == "b"`, `"a" ? "b" : "c"`, `"x" ?: "y"`, `"a".."b"`,
		`"a\"b"`, `"a\\"`, `"\\"`, `"tab\there"`, `"nl\nhere"`, `"\101"`, `"\S"`, `"C:\dir"`, `"trail\"`,
		`"é"`, `"日本語"`, `"😀"`, `" "`, `""`, `"'"`, `"a=b"`, `"a;b"`,
	}
}

// ReplayLitCase re-runs one recorded literal case.
func ReplayLitCase(c *core.Ctx, raw json.RawMessage) {
	var lc LitCase
	if err := json.Unmarshal(raw, &lc); err != nil {
		c.Broken("bad literal scenario: %v", err)
		return
	}
	st := newLitStats()
	runLitCase(c, st, lc, Key(fmt.Sprint(c.Seed)), false)
	c.Add("traces_validated_against_impl", st.Conform)
}
