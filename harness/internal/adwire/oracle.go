package adwire

import (
	"fmt"
	"math"
	"strings"

	"github.com/PelicanPlatform/classad/ast"
	"github.com/PelicanPlatform/classad/classad"
	"github.com/PelicanPlatform/classad/parser"
)

// Lit is a typed literal value.
type Lit struct {
	Kind string // bool | int | real | string
	B    bool
	I    int64
	R    float64
	S    string
}

func (l *Lit) String() string {
	switch l.Kind {
	case "bool":
		return fmt.Sprintf("bool %v", l.B)
	case "int":
		return fmt.Sprintf("int %d", l.I)
	case "real":
		return fmt.Sprintf("real %v", l.R)
	}
	return fmt.Sprintf("string %q", l.S)
}

// Oracle is what the classad library's FULL parser assigns to a value text
// (the statement of C08 defines correctness that way).
type Oracle struct {
	Accepts bool
	Err     error
	Lit     *Lit   // the typed value when the expression is one literal (a '-' directly on a number folded)
	Class   string // the model's vocabulary: bool | int | real | simpleString | notLiteral
	Canon   string // canonical rendering of the expression (parentheses transparent)
}

// foldLiteral returns the literal an expression denotes as the grammar's lone
// literal: a literal node, or one sign applied directly to a numeric literal.
func foldLiteral(e ast.Expr) *Lit {
	switch n := e.(type) {
	case *ast.BooleanLiteral:
		return &Lit{Kind: "bool", B: n.Value}
	case *ast.IntegerLiteral:
		return &Lit{Kind: "int", I: n.Value}
	case *ast.RealLiteral:
		return &Lit{Kind: "real", R: n.Value}
	case *ast.StringLiteral:
		return &Lit{Kind: "string", S: n.Value}
	case *ast.UnaryOp:
		sign := int64(1)
		switch n.Op {
		case "-":
			sign = -1
		case "+":
		default:
			return nil
		}
		switch in := n.Expr.(type) {
		case *ast.IntegerLiteral:
			return &Lit{Kind: "int", I: sign * in.Value}
		case *ast.RealLiteral:
			return &Lit{Kind: "real", R: float64(sign) * in.Value}
		}
	}
	return nil
}

// Ask runs the full parser on a value text.
func Ask(text string) (o Oracle) {
	defer func() {
		if r := recover(); r != nil {
			o = Oracle{Err: fmt.Errorf("parser panic: %v", r)}
		}
	}()
	e, err := parser.ParseExpr(text)
	if err != nil {
		return Oracle{Err: err}
	}
	o.Accepts = true
	o.Lit = foldLiteral(e)
	o.Canon = e.String()
	o.Class = "notLiteral"
	if o.Lit != nil {
		switch o.Lit.Kind {
		case "string":
			if !strings.Contains(text, `\`) {
				o.Class = "simpleString"
			}
		default:
			o.Class = o.Lit.Kind
		}
	}
	return o
}

// litOf returns the typed value a decoded expression has in an empty scope
// (nil when it is not a boolean, integer, real or string there).
func litOf(e *classad.Expr) (l *Lit) {
	if e == nil {
		return nil
	}
	defer func() {
		if recover() != nil {
			l = nil
		}
	}()
	v := e.Eval(nil)
	switch {
	case v.IsBool():
		b, _ := v.BoolValue()
		return &Lit{Kind: "bool", B: b}
	case v.IsInteger():
		i, _ := v.IntValue()
		return &Lit{Kind: "int", I: i}
	case v.IsReal():
		r, _ := v.RealValue()
		return &Lit{Kind: "real", R: r}
	case v.IsString():
		s, _ := v.StringValue()
		return &Lit{Kind: "string", S: s}
	}
	return nil
}

// KindOf names the kind of a decoded expression for failure signatures.
func KindOf(e *classad.Expr) string {
	if e == nil {
		return "missing"
	}
	if l := litOf(e); l != nil {
		return l.Kind
	}
	return "expression"
}

func sameReal(a, b float64) bool {
	if math.IsNaN(a) || math.IsNaN(b) {
		return math.IsNaN(a) && math.IsNaN(b)
	}
	return a == b
}

// SameValue compares a decoded attribute value with the oracle: same typed
// value for a literal (semantic comparison: "-5" may be a literal or a negated
// literal), same expression (parentheses transparent) otherwise.
func SameValue(e *classad.Expr, o *Oracle) (same bool, got string) {
	if e == nil {
		return false, "attribute missing"
	}
	if o.Lit == nil {
		s := e.String()
		return s == o.Canon, s
	}
	dl := litOf(e)
	if dl == nil {
		return false, "expression " + e.String()
	}
	got = dl.String()
	if dl.Kind != o.Lit.Kind {
		return false, got
	}
	switch o.Lit.Kind {
	case "bool":
		return dl.B == o.Lit.B, got
	case "int":
		return dl.I == o.Lit.I, got
	case "real":
		return sameReal(dl.R, o.Lit.R), got
	default:
		return dl.S == o.Lit.S, got
	}
}

// ShapeOf is the abstract shape of a value text used in failure signatures.
func ShapeOf(text string) string {
	t := strings.TrimSpace(text)
	if len(t) >= 2 && t[0] == '"' && t[len(t)-1] == '"' {
		in := t[1 : len(t)-1]
		switch {
		case strings.Contains(in, `\`):
			return "quote-delimited with backslash"
		case strings.Contains(in, `"`):
			return "quote-delimited with interior quote"
		default:
			return "quote-delimited"
		}
	}
	if t == "" {
		return "empty"
	}
	number, word := true, true
	for i := 0; i < len(t); i++ {
		c := t[i]
		isDigit := c >= '0' && c <= '9'
		isLetter := (c|0x20) >= 'a' && (c|0x20) <= 'z'
		if !(isDigit || c == '.' || c == '-' || c == '+' || c == 'e' || c == 'E' || c == 'x' || c == 'X' || c == '_') {
			number = false
		}
		if !(isLetter || c == '_' || (i > 0 && isDigit)) {
			word = false
		}
	}
	switch {
	case (t[0] == '-' || (t[0] >= '0' && t[0] <= '9')) && number:
		return "number-shaped"
	case word:
		return "word"
	}
	return "operator expression"
}
