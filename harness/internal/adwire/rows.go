package adwire

import (
	"encoding/json"
	"fmt"
	"math/rand"
	"os"
	"sort"
	"strings"
	"sync"

	"cedarverif/internal/core"
)

type wireScn struct {
	Scn WireRow `json:"scn"`
}

// ParseWireRows decodes the output of Gen_ClassAdWire.
func ParseWireRows(c *core.Ctx, raws []json.RawMessage) []WireRow {
	out := make([]WireRow, 0, len(raws))
	for _, r := range raws {
		var s wireScn
		if err := json.Unmarshal(r, &s); err != nil || s.Scn.Cfg.St == "" || len(s.Scn.Allowed) != len(s.Scn.Ad) {
			c.Broken("bad ClassAdWire row %s: %v", string(r), err)
			return nil
		}
		out = append(out, s.Scn)
	}
	return out
}

// canonical (mixed-case) spellings of the attribute classes
var canonName = map[string]string{
	"capability": "Capability", "childclaimids": "ChildClaimIds", "claimid": "ClaimId",
	"claimidlist": "ClaimIdList", "claimids": "ClaimIds", "transferkey": "TransferKey",
	"prefix": "_Condor_Priv_Thing", "pubA": "PubAlpha", "pubB": "PubBeta", "stime": "ServerTime",
}

func spell(name, sp string) string {
	switch sp {
	case "lower":
		return strings.ToLower(name)
	case "upper":
		return strings.ToUpper(name)
	}
	return name
}

func isPrivateCls(cls string) bool { return cls != "pubA" && cls != "pubB" && cls != "stime" }

// privateValue builds the value of a private attribute with unique canaries.
func privateValue(cls, salt string, idx int) (value string, canary []string) {
	tag := func(k int) string {
		return fmt.Sprintf("cnry%x", Key(fmt.Sprintf("%s/%s/%d/%d", salt, cls, idx, k))[:9])
	}
	switch cls {
	case "childclaimids", "claimids":
		a, b := tag(0), tag(1)
		return fmt.Sprintf(`{"%s", "%s"}`, a, b), []string{a, b}
	case "prefix":
		k := Key(fmt.Sprintf("%s/%s/%d/int", salt, cls, idx))
		n := uint64(0)
		for _, b := range k[:7] {
			n = n<<8 | uint64(b)
		}
		s := fmt.Sprintf("%d", 1000000000000000+n%8000000000000000)
		return s, []string{s}
	default:
		a := tag(0)
		return fmt.Sprintf(`"<10.0.0.1:9618>#%s#secret"`, a), []string{a}
	}
}

var belowVersions = [][]int{{9, 8, 9}, {9, 8, 0}, {8, 9, 13}, {9, 0, 0}, {0, 0, 0}, {8, 10, 10}, {9, 8, 99}}
var atleastVersions = [][]int{{9, 9, 0}, {9, 9, 1}, {9, 10, 0}, {10, 0, 0}, {23, 0, 0}, {9, 12, 0}, {10, 0, 9}}

func versionsFor(ver string, r *rand.Rand) [][]int {
	switch ver {
	case "below":
		return [][]int{belowVersions[0], belowVersions[1+r.Intn(len(belowVersions)-1)]}
	case "atleast":
		return [][]int{atleastVersions[0], atleastVersions[1+r.Intn(len(atleastVersions)-1)]}
	}
	return [][]int{nil}
}

// ---------------------------------------------------------------------------
// C09: the whole decision table

// C09Scenarios concretises the table rows: every single-attribute row, and per
// configuration and spelling one merged ad that holds every attribute class
// (plus the bare reserved prefix and near-miss public names).
func C09Scenarios(c *core.Ctx, rows []WireRow) []*AdScenario {
	rng := c.Rand("c09")
	salt := fmt.Sprint(c.Seed)
	var out []*AdScenario
	type gkey struct {
		cfg WireCfg
		sp  string
	}
	groups := map[gkey][]WireRow{}
	var gorder []gkey
	mk := func(row WireRow, attrs []ConcAttr, ver []int, sender string) *AdScenario {
		sc := &AdScenario{Kind: "ClassAdWire", Prop: "C09", Cfg: row.Cfg, Attrs: attrs, Types: "both",
			MyType: "Machine", TargetType: "Job", Cut: "one", RecvOK: row.RecvOK, Version: ver, Sender: sender,
			Pad: row.Cfg.Opts&BitNoTypes != 0, Trailer: true, Salt: salt}
		switch row.Cfg.Wl {
		case "pub":
			for _, a := range attrs {
				if a.Cls == "pubA" {
					sc.Whitelist = append(sc.Whitelist, a.Name)
				}
			}
			if len(sc.Whitelist) == 0 {
				sc.Whitelist = []string{spell(canonName["pubA"], "mixed")}
			}
		case "priv":
			for _, a := range attrs {
				if a.Cls != "pubB" {
					sc.Whitelist = append(sc.Whitelist, a.Name)
				}
			}
			if len(sc.Whitelist) == 0 {
				sc.Whitelist = []string{"ClaimId"}
			}
		}
		return sc
	}
	conc := func(a WireAttr, allowed []string, idx int) ConcAttr {
		ca := ConcAttr{Name: spell(canonName[a.Cls], a.Sp), Cls: a.Cls, Sp: a.Sp, Private: isPrivateCls(a.Cls), Allowed: allowed}
		if ca.Private {
			ca.Value, ca.Canary = privateValue(a.Cls, salt, idx)
		} else {
			ca.Value = fmt.Sprintf("%d", 100+idx)
		}
		return ca
	}
	for _, row := range rows {
		senders := []string{"PutClassAdWithOptions"}
		if row.Cfg.Opts == 0 && row.Cfg.Wl == "none" && row.Cfg.Ver == "unset" {
			senders = append(senders, "PutClassAd")
		}
		var attrs []ConcAttr
		for i, a := range row.Ad {
			attrs = append(attrs, conc(a, row.Allowed[i], i))
		}
		for _, ver := range versionsFor(row.Cfg.Ver, rng) {
			for _, s := range senders {
				out = append(out, mk(row, attrs, ver, s))
			}
		}
		if len(row.Ad) == 1 {
			k := gkey{row.Cfg, row.Ad[0].Sp}
			if _, ok := groups[k]; !ok {
				gorder = append(gorder, k)
			}
			groups[k] = append(groups[k], row)
		}
	}
	for _, k := range gorder {
		rs := groups[k]
		sort.Slice(rs, func(i, j int) bool { return rs[i].Ad[0].Cls < rs[j].Ad[0].Cls })
		var attrs []ConcAttr
		for i, r := range rs {
			ca := conc(r.Ad[0], r.Allowed[0], 10+i)
			attrs = append(attrs, ca)
			switch r.Ad[0].Cls {
			case "prefix": // the bare reserved prefix is itself a private name
				b := conc(r.Ad[0], r.Allowed[0], 30+i)
				b.Name = spell("_Condor_Priv", k.sp)
				attrs = append(attrs, b)
			case "pubB": // near misses of the private names are public
				for j, n := range []string{"Claim_Id", "TransferKe", "_Condor_Pri_v", "Capabilit"} {
					b := conc(r.Ad[0], r.Allowed[0], 40+j)
					b.Name = spell(n, k.sp)
					attrs = append(attrs, b)
				}
			}
		}
		rng.Shuffle(len(attrs), func(i, j int) { attrs[i], attrs[j] = attrs[j], attrs[i] })
		row := WireRow{Cfg: k.cfg, RecvOK: rs[0].RecvOK}
		for _, ver := range versionsFor(k.cfg.Ver, rng) {
			out = append(out, mk(row, attrs, ver, "PutClassAdWithOptions"))
		}
	}
	return out
}

// ---------------------------------------------------------------------------
// C08: ad shapes x value pool

var fixedNames = []string{"ClaimId", "Capability", "TransferKey"}

// C08Scenarios distributes the value pool over the ad shapes: every shape is
// used with every sender API that can express it, and shapes are revisited
// until every value of the pool has been carried.
func C08Scenarios(c *core.Ctx, rows []WireRow, pool []string) []*AdScenario {
	salt := fmt.Sprint(c.Seed)
	var out []*AdScenario
	p := 0
	next := func() string {
		v := pool[p%len(pool)]
		p++
		return v
	}
	for round := 0; ; round++ {
		for ri, row := range rows {
			npub, npriv := 0, 0
			for _, a := range row.Ad {
				if isPrivateCls(a.Cls) {
					npriv++
				} else {
					npub++
				}
			}
			if round > 0 && npub == 0 {
				continue
			}
			senders := []string{"PutClassAdWithOptions"}
			if row.Cfg.Opts == 0 {
				senders = append(senders, "PutClassAd")
				if npriv == 0 && row.Cfg.St != KeyedClear {
					senders = append(senders, "PutClassAdRaw", "PutClassAdRawBytes")
				}
			}
			if round > 0 {
				senders = senders[(round+ri)%len(senders):][:1]
			}
			for _, s := range senders {
				var attrs []ConcAttr
				pi := 0
				for i, a := range row.Ad {
					ca := ConcAttr{Cls: a.Cls, Sp: a.Sp, Private: isPrivateCls(a.Cls), Allowed: row.Allowed[i]}
					if ca.Private {
						ca.Name = fixedNames[pi%len(fixedNames)]
						ca.Value, ca.Canary = privateValue(a.Cls, salt, i)
						pi++
					} else {
						ca.Name = fmt.Sprintf("Attr%d_%c", i, 'a'+rune((ri+i)%26))
						ca.Value = next()
					}
					attrs = append(attrs, ca)
				}
				sc := &AdScenario{Kind: "ClassAdWire", Prop: "C08", Cfg: row.Cfg, Attrs: attrs, Types: row.Types,
					MyType: "Machine", TargetType: "Job", Cut: row.Cut, RecvOK: row.RecvOK, Sender: s,
					Trailer: row.Cfg.Opts&BitNoTypes == 0 || strings.HasPrefix(s, "PutClassAdRaw"), Salt: salt,
					AllCuts: c.Thorough() && round == 0}
				// the size-limited receiver: every byte budget once per shape and sender API,
				// the field boundaries +-1 on every fourth of the value-carrying repetitions
				if round == 0 {
					sc.Budgets = "all"
				} else if len(out)%4 == 0 || c.Thorough() {
					sc.Budgets = "bounds"
				}
				out = append(out, sc)
			}
		}
		if p >= len(pool) {
			break
		}
	}
	return out
}

// C08StimeScenarios concretises the ServerTime dimension (Gen_C08_stime.cfg): the
// ServerTime option on / off x an ad that carries its own ServerTime attribute in
// some spelling (a forwarded ad) or not.
func C08StimeScenarios(c *core.Ctx, rows []WireRow) []*AdScenario {
	salt := fmt.Sprint(c.Seed)
	var out []*AdScenario
	for ri, row := range rows {
		n := 0
		for _, a := range row.Ad {
			if a.Cls == "stime" {
				n++
			}
		}
		if n > 1 {
			continue // one name cannot occur twice in an ad
		}
		senders := []string{"PutClassAdWithOptions"}
		if row.Cfg.Opts == 0 {
			senders = append(senders, "PutClassAd", "PutClassAdRaw", "PutClassAdRawBytes")
		}
		for _, s := range senders {
			if strings.HasPrefix(s, "PutClassAdRaw") && row.Cfg.St == KeyedClear {
				continue
			}
			var attrs []ConcAttr
			for i, a := range row.Ad {
				ca := ConcAttr{Cls: a.Cls, Sp: a.Sp, Allowed: row.Allowed[i]}
				if a.Cls == "stime" {
					ca.Name = spell("ServerTime", a.Sp)
					ca.Value = fmt.Sprintf("%d", 1500000000+ri)
				} else {
					ca.Name = fmt.Sprintf("Attr%d_%c", i, 'a'+rune((ri+i)%26))
					ca.Value = []string{"1", `"text"`, "X + 1", "2.5"}[(ri+i)%4]
				}
				attrs = append(attrs, ca)
			}
			out = append(out, &AdScenario{Kind: "ClassAdWire", Prop: "C08", Cfg: row.Cfg, Attrs: attrs, Types: row.Types,
				MyType: "Machine", TargetType: "Job", Cut: row.Cut, RecvOK: row.RecvOK, Sender: s,
				Trailer: row.Cfg.Opts&BitNoTypes == 0 || strings.HasPrefix(s, "PutClassAdRaw"), Salt: salt,
				AllCuts: c.Thorough(), Budgets: "all"})
		}
	}
	return out
}

// LargeAdScenarios are ads big enough for the real sender to cut frames itself
// (16 KiB target frame size): the multi-frame case with the sender's own cuts.
func LargeAdScenarios(c *core.Ctx) []*AdScenario {
	salt := fmt.Sprint(c.Seed)
	var out []*AdScenario
	for _, st := range []string{NoKey, Enc, KeyedClear} {
		for _, n := range []int{3, 40} {
			for _, size := range []int{6000, 16380, 20000} {
				for _, sender := range []string{"PutClassAd", "PutClassAdRaw"} {
					if sender == "PutClassAdRaw" && st == KeyedClear {
						continue
					}
					var attrs []ConcAttr
					for i := 0; i < n; i++ {
						sz := size
						if n > 3 {
							sz = size / 8
						}
						attrs = append(attrs, ConcAttr{Name: fmt.Sprintf("Big%d", i), Cls: "pubA", Sp: "mixed",
							Value: `"` + strings.Repeat(string(rune('a'+i%26)), sz+i) + `"`, Allowed: []string{"plain", "secret"}})
					}
					attrs = append(attrs, ConcAttr{Name: "Small", Cls: "pubA", Sp: "mixed", Value: "1 + 2", Allowed: []string{"plain", "secret"}})
					out = append(out, &AdScenario{Kind: "ClassAdWire", Prop: "C08", Cfg: WireCfg{Opts: 0, St: st, Ver: "unset", Wl: "none"},
						Attrs: attrs, Types: "both", MyType: "Machine", TargetType: "Job", Cut: "one", RecvOK: true,
						Sender: sender, Trailer: true, Salt: salt, Budgets: "bounds"})
				}
			}
		}
	}
	return out
}

// ---------------------------------------------------------------------------

// AdTotals aggregates the observations of all scenario runs.
type AdTotals struct {
	mu      sync.Mutex
	Obs     AdObs
	Conform int64
	Skipped int64
	Frames  map[string]int64
}

// RunScenarios runs scenarios in parallel, confirms every difference by an
// immediate second run and records failures and coverage.
func RunScenarios(c *core.Ctx, scs []*AdScenario) *AdTotals {
	t := &AdTotals{Obs: AdObs{Outcomes: map[string]int{}}}
	core.ParallelFor(len(scs), 16, func(i int) {
		sc := scs[i]
		var obs AdObs
		d := RunAd(sc, &obs)
		key, _ := json.Marshal(sc)
		c.Eval(string(key), len(sc.Attrs) > 0)
		t.mu.Lock()
		for k, v := range obs.Outcomes {
			t.Obs.Outcomes[k] += v
		}
		t.Obs.SecretItems += obs.SecretItems
		t.Obs.ProtFrames += obs.ProtFrames
		t.Obs.ClearFrames += obs.ClearFrames
		t.Obs.Receivers += obs.Receivers
		t.Obs.CutVariants += obs.CutVariants
		t.Obs.SkipMarkerDesyn += obs.SkipMarkerDesyn
		t.Obs.ValuesChecked += obs.ValuesChecked
		t.Obs.ValuesOutside += obs.ValuesOutside
		t.Obs.CanarySearches += obs.CanarySearches
		t.Obs.BudgetRuns += obs.BudgetRuns
		t.Obs.BudgetRefused += obs.BudgetRefused
		t.Obs.BudgetAccepted += obs.BudgetAccepted
		if d == nil {
			t.Conform++
		}
		t.mu.Unlock()
		if d == nil {
			return
		}
		var obs2 AdObs
		d2 := RunAd(sc, &obs2)
		// reproducible = the same abstract difference again (the order in which the
		// sender walks its attributes, hence the text of an error, is unconstrained)
		if d2 == nil || fmt.Sprint(d2.Sig) != fmt.Sprint(d.Sig) {
			c.Broken("non-reproducible difference: %v vs %v", d, d2)
			return
		}
		c.Fail(core.Failure{Signature: d.Sig, Detail: d.Detail, Scenario: sc})
	})
	return t
}

// Publish writes the aggregated observations into the evidence.
func (t *AdTotals) Publish(c *core.Ctx, prefix string) {
	c.Add("traces_validated_against_impl", t.Conform)
	c.Set(prefix+"outcomes_observed_by_class_state", t.Obs.Outcomes)
	c.Set(prefix+"secret_items_observed", t.Obs.SecretItems)
	c.Set(prefix+"frames_opened_by_reference_opener", t.Obs.ProtFrames)
	c.Set(prefix+"clear_frames", t.Obs.ClearFrames)
	c.Set(prefix+"real_receiver_calls", t.Obs.Receivers)
	c.Set(prefix+"framing_variants", t.Obs.CutVariants)
	c.Set(prefix+"attribute_values_compared_with_full_parser", t.Obs.ValuesChecked)
	c.Set(prefix+"rendered_texts_the_full_parser_rejects", t.Obs.ValuesOutside)
	c.Set(prefix+"canary_searches", t.Obs.CanarySearches)
	if t.Obs.BudgetRuns > 0 {
		c.Set(prefix+"size_limited_receiver_budget_runs", t.Obs.BudgetRuns)
		c.Set(prefix+"size_limited_receiver_refused_cleanly", t.Obs.BudgetRefused)
		c.Set(prefix+"size_limited_receiver_accepted_and_equal_to_unlimited", t.Obs.BudgetAccepted)
	}
	c.Set(prefix+"observation_skip_desync_on_marker_plus_secret", t.Obs.SkipMarkerDesyn)
}

// ReplayAdFile re-runs a recorded ClassAdWire scenario; false if the file holds another kind.
func ReplayAdFile(c *core.Ctx, raw json.RawMessage) bool {
	var sc AdScenario
	if err := json.Unmarshal(raw, &sc); err != nil || sc.Kind != "ClassAdWire" {
		return false
	}
	t := RunScenarios(c, []*AdScenario{&sc})
	c.Add("traces_validated_against_impl", t.Conform)
	return true
}

// ReadReplay loads the scenario of a replay file.
func ReadReplay(c *core.Ctx) (json.RawMessage, string, bool) {
	b, err := os.ReadFile(c.Replay)
	if err != nil {
		c.Broken("cannot read replay file: %v", err)
		return nil, "", false
	}
	var rf struct {
		Scenario json.RawMessage `json:"scenario"`
	}
	var kind struct {
		Kind string `json:"kind"`
	}
	if err := json.Unmarshal(b, &rf); err != nil || json.Unmarshal(rf.Scenario, &kind) != nil {
		c.Broken("bad replay file %s", c.Replay)
		return nil, "", false
	}
	return rf.Scenario, kind.Kind, true
}

// C09RandomAds draws seeded ads that mix attribute classes and spellings freely
// under configurations of the table; the allowed outcomes come from the table rows.
func C09RandomAds(c *core.Ctx, rows []WireRow, n int) []*AdScenario {
	rng := c.Rand("c09-random")
	salt := fmt.Sprint(c.Seed) + "r"
	type k struct {
		cfg     WireCfg
		cls, sp string
	}
	idx := map[k][]string{}
	var cfgs []WireCfg
	seen := map[WireCfg]bool{}
	var classes []string
	seenCls := map[string]bool{}
	for _, r := range rows {
		if len(r.Ad) != 1 {
			continue
		}
		idx[k{r.Cfg, r.Ad[0].Cls, r.Ad[0].Sp}] = r.Allowed[0]
		if !seen[r.Cfg] {
			seen[r.Cfg] = true
			cfgs = append(cfgs, r.Cfg)
		}
		if !seenCls[r.Ad[0].Cls] {
			seenCls[r.Ad[0].Cls] = true
			classes = append(classes, r.Ad[0].Cls)
		}
	}
	sps := []string{"lower", "upper", "mixed"}
	var out []*AdScenario
	for i := 0; i < n && len(cfgs) > 0; i++ {
		cfg := cfgs[rng.Intn(len(cfgs))]
		perm := rng.Perm(len(classes))
		m := 1 + rng.Intn(len(classes))
		var attrs []ConcAttr
		for j := 0; j < m; j++ {
			cls := classes[perm[j]]
			sp := sps[rng.Intn(3)]
			ca := ConcAttr{Name: spell(canonName[cls], sp), Cls: cls, Sp: sp, Private: isPrivateCls(cls), Allowed: idx[k{cfg, cls, sp}]}
			if cls == "prefix" && rng.Intn(2) == 0 {
				ca.Name = spell("_Condor_Priv"+[]string{"", "X", "_a_b", "9"}[rng.Intn(4)], sp)
			}
			if ca.Private {
				ca.Value, ca.Canary = privateValue(cls, salt, i*16+j)
			} else {
				ca.Value = []string{"1", `"text"`, "X + 1", "{1, 2}", "true", "2.5"}[rng.Intn(6)]
			}
			attrs = append(attrs, ca)
		}
		sc := &AdScenario{Kind: "ClassAdWire", Prop: "C09", Cfg: cfg, Attrs: attrs, Types: []string{"both", "none"}[rng.Intn(2)],
			MyType: "Machine", TargetType: "Job", Cut: []string{"one", "each", "split"}[rng.Intn(3)], RecvOK: true,
			Sender: "PutClassAdWithOptions", Pad: cfg.Opts&BitNoTypes != 0, Trailer: true, Salt: salt}
		if v := versionsFor(cfg.Ver, rng); v[0] != nil {
			sc.Version = v[rng.Intn(len(v))]
		}
		for _, a := range attrs {
			if (cfg.Wl == "pub" && a.Cls == "pubA") || (cfg.Wl == "priv" && a.Cls != "pubB") {
				sc.Whitelist = append(sc.Whitelist, a.Name)
			}
		}
		if cfg.Wl != "none" && len(sc.Whitelist) == 0 {
			sc.Whitelist = []string{"NoSuchAttribute"}
		}
		out = append(out, sc)
	}
	return out
}
