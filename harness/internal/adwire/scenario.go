package adwire

import (
	"bytes"
	"encoding/json"
	"fmt"
	"sort"
	"strings"

	"cedarverif/internal/refcodec"

	"github.com/PelicanPlatform/classad/classad"
	"github.com/bbockelm/cedar/message"
)

// WireCfg, WireAttr, WireRow mirror a row printed by Gen_ClassAdWire.
type WireCfg struct {
	Opts int    `json:"opts"`
	St   string `json:"st"`
	Ver  string `json:"ver"`
	Wl   string `json:"wl"`
}

type WireAttr struct {
	Cls string `json:"cls"`
	Sp  string `json:"sp"`
}

type WireRow struct {
	Cfg     WireCfg    `json:"cfg"`
	Ad      []WireAttr `json:"ad"`
	Types   string     `json:"types"`
	Cut     string     `json:"cut"`
	Allowed [][]string `json:"allowed"`
	RecvOK  bool       `json:"recvOK"`
}

// Option bits as the statement names them (PutClassAdConfig.Options).
const (
	BitNoTypes        = 1 << 0
	BitNoPrivate      = 1 << 1
	BitServerTime     = 1 << 2
	BitNonBlocking    = 1 << 3
	BitNoExpandWL     = 1 << 4
	BitIncludePrivate = 1 << 5
)

// ConcAttr is one concrete attribute of a scenario's ad.
type ConcAttr struct {
	Name    string   `json:"name"`
	Value   string   `json:"value"` // source text of the expression
	Cls     string   `json:"cls"`
	Sp      string   `json:"sp"`
	Private bool     `json:"private"`
	Canary  []string `json:"canary,omitempty"` // unique substrings of the value's rendering
	Allowed []string `json:"allowed"`
}

// AdScenario is one concrete, replayable execution of a ClassAdWire row.
type AdScenario struct {
	Kind       string     `json:"kind"` // "ClassAdWire"
	Prop       string     `json:"prop"` // C08 | C09
	Cfg        WireCfg    `json:"cfg"`
	Attrs      []ConcAttr `json:"attrs"`
	Types      string     `json:"types"`
	MyType     string     `json:"myType"`
	TargetType string     `json:"targetType"`
	Cut        string     `json:"cut"`
	RecvOK     bool       `json:"recvOK"`
	Whitelist  []string   `json:"whitelist,omitempty"`
	Version    []int      `json:"version,omitempty"`
	Sender     string     `json:"sender"` // PutClassAdWithOptions | PutClassAd | PutClassAdRaw | PutClassAdRawBytes
	Pad        bool       `json:"pad"`    // the application writes two empty strings after a type-less ad
	Trailer    bool       `json:"trailer"`
	AllCuts    bool       `json:"allCuts"` // additionally every single byte offset as a lone cut
	// Budgets: byte budgets tried on the size-limited parsing receiver: "all" = every value
	// from 0 to a little past the message, "bounds" = every field boundary +-1, "" = none
	Budgets string `json:"budgets,omitempty"`
	Salt    string `json:"salt"`
}

// AdDiff is a conformance difference of an ad scenario.
type AdDiff struct {
	Sig    map[string]string
	Detail string
}

// AdObs is what a run observed besides conformance (coverage, observations).
type AdObs struct {
	Outcomes        map[string]int // "cls/outcome" counts
	SecretItems     int
	ProtFrames      int
	ClearFrames     int
	Receivers       int
	CutVariants     int
	SkipMarkerDesyn int // SkipClassAdRaw on marker + secret (observation outside the statements)
	ValuesChecked   int
	ValuesOutside   int // rendered texts the full parser rejects
	CanarySearches  int
	BudgetRuns      int // GetClassAdWithMaxSize calls of the budget sweep
	BudgetRefused   int // ... that ended in a clean error
	BudgetAccepted  int // ... that returned an ad (compared with the unlimited receiver's)
}

func optClass(c WireCfg) map[string]string {
	b := func(x bool) string {
		if x {
			return "1"
		}
		return "0"
	}
	return map[string]string{
		"include": b(c.Opts&BitIncludePrivate != 0), "noPrivate": b(c.Opts&BitNoPrivate != 0),
		"wl": c.Wl, "ver": c.Ver, "st": c.St,
	}
}

func attrClass(cls string) string {
	switch cls {
	case "pubA", "pubB", "stime":
		return "public"
	case "prefix":
		return "reserved-prefix"
	}
	return "fixed-private-name"
}

func splitItem(text string) (name, value string, ok bool) {
	i := strings.IndexByte(text, '=')
	if i < 0 {
		return "", "", false
	}
	return strings.TrimSpace(text[:i]), text[i+1:], true
}

func containsFold(hay []byte, needle string) bool {
	if needle == "" {
		return false
	}
	return bytes.Contains(bytes.ToLower(hay), bytes.ToLower([]byte(needle)))
}

// RunAd performs one scenario on the real code.
func RunAd(sc *AdScenario, obs *AdObs) *AdDiff {
	key := Key(sc.Salt)
	base := func(action string) map[string]string {
		m := optClass(sc.Cfg)
		m["spec"] = "ClassAdWire"
		m["action"] = action
		return m
	}
	// ---- the sender's ad
	ad := classad.New()
	exprs := map[string]*classad.Expr{}
	for _, a := range sc.Attrs {
		e, err := classad.ParseExpr(a.Value)
		if err != nil {
			return nil // the generator produced a text outside the grammar: not a scenario
		}
		ad.InsertExpr(a.Name, e)
		exprs[strings.ToLower(a.Name)] = e
	}
	if sc.Types == "both" {
		_ = ad.Set("MyType", sc.MyType)
		_ = ad.Set("TargetType", sc.TargetType)
	}
	var cfg *message.PutClassAdConfig
	if sc.Sender == "PutClassAdWithOptions" {
		cfg = &message.PutClassAdConfig{Options: message.PutClassAdOptions(sc.Cfg.Opts), Whitelist: sc.Whitelist}
		if len(sc.Version) == 3 {
			cfg.PeerVersion = message.NewHTCondorVersion(sc.Version[0], sc.Version[1], sc.Version[2])
		}
	}
	// ---- Put on the real stream, every emitted byte captured
	var rawItems []string // the texts handed to a raw sender
	var shared, sharedCopy []byte
	raw, err := Send(sc.Cfg.St, key, func(m *message.Message) error {
		var err error
		switch sc.Sender {
		case "PutClassAdWithOptions":
			err = m.PutClassAdWithOptions(bg, ad, cfg)
		case "PutClassAd":
			err = m.PutClassAd(bg, ad)
		case "PutClassAdRaw", "PutClassAdRawBytes":
			var items []string
			for _, a := range sc.Attrs {
				items = append(items, a.Name+" = "+a.Value)
			}
			rawItems = items
			mt, tt := "", ""
			if sc.Types == "both" {
				mt, tt = sc.MyType, sc.TargetType
			}
			if sc.Sender == "PutClassAdRaw" {
				err = m.PutClassAdRaw(bg, items, mt, tt)
			} else {
				// the documented usage: all expressions rendered back to back into ONE
				// scratch buffer, passed as sub-slices (cap > len); the buffer stays the caller's
				bs := make([][]byte, len(items))
				shared = make([]byte, 0, 64)
				offs := make([]int, len(items)+1)
				for i := range items {
					shared = append(shared, items[i]...)
					offs[i+1] = len(shared)
				}
				shared = append(shared, "<end of the caller's scratch buffer>"...)
				for i := range items {
					bs[i] = shared[offs[i]:offs[i+1]]
				}
				sharedCopy = append([]byte(nil), shared...)
				err = m.PutClassAdRawBytes(bg, bs, mt, tt)
			}
		default:
			err = fmt.Errorf("unknown sender %q", sc.Sender)
		}
		if err != nil {
			return err
		}
		if sc.Pad {
			if err := m.PutString(bg, ""); err != nil {
				return err
			}
			if err := m.PutString(bg, ""); err != nil {
				return err
			}
		}
		if sc.Trailer {
			return m.PutString(bg, Trailer)
		}
		return nil
	})
	if err != nil {
		s := base("Put")
		s["what"] = "sender error"
		return &AdDiff{s, fmt.Sprintf("%s fails: %v", sc.Sender, err)}
	}
	if shared != nil && !bytes.Equal(shared, sharedCopy) {
		s := base("Put")
		s["sender"] = sc.Sender
		s["what"] = "caller's buffer modified"
		k := 0
		for k < len(shared) && shared[k] == sharedCopy[k] {
			k++
		}
		return &AdDiff{s, fmt.Sprintf("PutClassAdRawBytes changed the caller's expression buffer at offset %d (%q -> %q)", k, trunc(sharedCopy), trunc(shared))}
	}
	// ---- what is on the wire, by the reference codec
	frames, err := refcodec.C08OpenAll(raw, Opener(sc.Cfg.St, key), sc.Cfg.St == Enc)
	if err != nil {
		s := base("Put")
		s["what"] = "clear frame on encrypting stream"
		return &AdDiff{s, err.Error()}
	}
	var clear, opened []byte // bytes that travelled in the clear / plaintext of protected frames
	for _, f := range frames {
		if f.Prot {
			obs.ProtFrames++
			opened = append(opened, f.Data...)
			opened = append(opened, 0xff)
		} else {
			obs.ClearFrames++
			clear = append(clear, f.Data...)
			clear = append(clear, 0xff)
		}
	}
	wad, err := refcodec.C08DecodeAd(frames)
	if err != nil {
		s := base("Put")
		s["what"] = "layout"
		return &AdDiff{s, fmt.Sprintf("emitted bytes are not count + items + type names: %v", err)}
	}
	// type names and what the application wrote after the ad
	rawSender := strings.HasPrefix(sc.Sender, "PutClassAdRaw")
	var wantTail []string
	if sc.Cfg.Opts&BitNoTypes == 0 || rawSender {
		if sc.Types == "both" {
			wantTail = append(wantTail, sc.MyType, sc.TargetType)
		} else {
			wantTail = append(wantTail, "", "")
		}
	}
	if sc.Pad {
		wantTail = append(wantTail, "", "")
	}
	if sc.Trailer {
		wantTail = append(wantTail, Trailer)
	}
	if len(wad.Tail) != len(wantTail) {
		s := base("Put")
		s["what"] = "count"
		s["serverTime"] = fmt.Sprint(sc.Cfg.Opts&BitServerTime != 0)
		return &AdDiff{s, fmt.Sprintf("the count in front of the ad says %d items, which leaves %q after them; the application wrote %q after the items: the count is not the number of items",
			wad.Count, wad.Tail, wantTail)}
	}
	if fmt.Sprintf("%q", wad.Tail) != fmt.Sprintf("%q", wantTail) {
		s := base("Put")
		s["what"] = "type names"
		return &AdDiff{s, fmt.Sprintf("after the items the wire carries %q, want %q", wad.Tail, wantTail)}
	}
	if rawSender {
		var got []string
		for _, it := range wad.Items {
			got = append(got, it.Text)
		}
		if fmt.Sprintf("%q", got) != fmt.Sprintf("%q", rawItems) {
			s := base("Put")
			s["sender"] = sc.Sender
			s["what"] = "raw items"
			return &AdDiff{s, fmt.Sprintf("%s was given %q, the wire carries %q", sc.Sender, rawItems, got)}
		}
	}
	// items -> outcome per attribute
	type found struct {
		item refcodec.C08WireItem
		val  string
	}
	items := map[string]found{}
	var order []string
	for _, it := range wad.Items {
		n, v, ok := splitItem(it.Text)
		if !ok {
			s := base("Put")
			s["what"] = "item text"
			return &AdDiff{s, fmt.Sprintf("item %q is not Name = Value", it.Text)}
		}
		ln := strings.ToLower(n)
		stimeDup := ln == "servertime" && sc.Cfg.Opts&BitServerTime != 0 && !rawSender
		if _, dup := items[ln]; dup && stimeDup {
			// the injected ServerTime next to the ad's own one: the statement is silent
			if it.Secret {
				obs.SecretItems++
			}
			continue
		}
		if _, dup := items[ln]; dup {
			s := base("Put")
			s["what"] = "duplicate item"
			return &AdDiff{s, fmt.Sprintf("attribute %s is emitted twice", n)}
		}
		items[ln] = found{it, v}
		order = append(order, ln)
		if it.Secret {
			obs.SecretItems++
		}
	}
	emitted := map[string]bool{} // lower-case names the receiver must reconstruct
	known := map[string]bool{}
	for i := range sc.Attrs {
		a := &sc.Attrs[i]
		ln := strings.ToLower(a.Name)
		known[ln] = true
		outcome := "omitted"
		f, ok := items[ln]
		if ok {
			outcome = "plain"
			if f.item.Secret {
				outcome = "secret"
			}
			emitted[ln] = true
		}
		if obs.Outcomes == nil {
			obs.Outcomes = map[string]int{}
		}
		obs.Outcomes[attrClass(a.Cls)+"/"+sc.Cfg.St+"/"+outcome]++
		if !rawSender {
			allowed := false
			for _, x := range a.Allowed {
				allowed = allowed || x == outcome
			}
			if !allowed {
				s := base("Put")
				s["attr"] = attrClass(a.Cls)
				s["spelling"] = a.Sp
				s["outcome"] = outcome
				return &AdDiff{s, fmt.Sprintf("attribute %s (%s, %s spelling) under options %#x whitelist=%s peer=%s stream=%s: sender produced %q, the decision table allows %v",
					a.Name, attrClass(a.Cls), a.Sp, sc.Cfg.Opts, sc.Cfg.Wl, sc.Cfg.Ver, sc.Cfg.St, outcome, a.Allowed)}
			}
		}
		// a private attribute that is sent on a stream holding a key: its text only inside protected frames
		if ok && a.Private && sc.Cfg.St != NoKey && !f.item.Prot {
			s := base("Put")
			s["attr"] = attrClass(a.Cls)
			s["what"] = "private item outside protected frames"
			return &AdDiff{s, fmt.Sprintf("private attribute %s travels outside protected frames on a %s stream", a.Name, sc.Cfg.St)}
		}
		// canary search over every emitted byte
		if a.Private {
			obs.CanarySearches++
			mustBeAbsent := len(a.Allowed) == 1 && a.Allowed[0] == "omitted" && !rawSender
			if mustBeAbsent {
				for _, hay := range [][]byte{raw, clear, opened} {
					if containsFold(hay, a.Name) {
						s := base("Put")
						s["attr"] = attrClass(a.Cls)
						s["spelling"] = a.Sp
						s["what"] = "name of a withheld private attribute in the emitted bytes"
						return &AdDiff{s, fmt.Sprintf("the name %s of a private attribute that must be withheld occurs in the emitted bytes", a.Name)}
					}
					for _, cn := range a.Canary {
						if bytes.Contains(hay, []byte(cn)) {
							s := base("Put")
							s["attr"] = attrClass(a.Cls)
							s["spelling"] = a.Sp
							s["what"] = "value of a withheld private attribute in the emitted bytes"
							return &AdDiff{s, fmt.Sprintf("canary %s of private attribute %s that must be withheld occurs in the emitted bytes", cn, a.Name)}
						}
					}
				}
			}
			if sc.Cfg.St != NoKey {
				for _, cn := range a.Canary {
					if bytes.Contains(raw, []byte(cn)) || bytes.Contains(clear, []byte(cn)) {
						s := base("Put")
						s["attr"] = attrClass(a.Cls)
						s["what"] = "private value in the clear on a keyed stream"
						return &AdDiff{s, fmt.Sprintf("canary %s of private attribute %s is readable in the clear on a %s stream", cn, a.Name, sc.Cfg.St)}
					}
					if ok && !bytes.Contains(opened, []byte(cn)) {
						s := base("Put")
						s["attr"] = attrClass(a.Cls)
						s["what"] = "private value not inside the protected frames"
						return &AdDiff{s, fmt.Sprintf("private attribute %s is emitted but its canary %s is not in the plaintext of the protected frames", a.Name, cn)}
					}
				}
			}
		}
		// the item is the sender's rendering of the attribute
		if ok && !rawSender && !(a.Cls == "stime" && sc.Cfg.Opts&BitServerTime != 0) {
			want := exprs[ln].String()
			if strings.TrimSpace(f.val) != want {
				s := base("Put")
				s["what"] = "rendering"
				return &AdDiff{s, fmt.Sprintf("attribute %s: item value %q is not the rendering %q of the sender's expression", a.Name, f.val, want)}
			}
		}
	}
	for _, ln := range order {
		if known[ln] {
			continue
		}
		switch {
		case ln == "servertime" && sc.Cfg.Opts&BitServerTime != 0 && !rawSender:
			emitted[ln] = true
		case (ln == "mytype" || ln == "targettype") && sc.Types == "both" && !rawSender:
			emitted[ln] = true
		default:
			s := base("Put")
			s["what"] = "item that is not an attribute of the ad"
			return &AdDiff{s, fmt.Sprintf("item %q does not come from the sender's ad", items[ln].item.Text)}
		}
	}
	// the type attributes are public attributes of the ad: without a whitelist they are sent
	if sc.Types == "both" && !rawSender && sc.Cfg.Wl == "none" && (!emitted["mytype"] || !emitted["targettype"]) {
		s := base("Put")
		s["what"] = "type attribute missing"
		return &AdDiff{s, "the MyType / TargetType attributes of the ad are not among the items"}
	}

	// ---- the receivers, on every cut variant of the plan
	variants := cutVariants(sc, raw, frames, wad, key)
	obs.CutVariants += len(variants)
	wantRest := []byte{}
	if sc.Trailer {
		wantRest = TrailerBytes(sc.Cfg.St)
	}
	wantNames := map[string]bool{}
	for ln := range emitted {
		wantNames[ln] = true
	}
	if len(wantTail) >= 2 {
		if wantTail[0] != "" {
			wantNames["mytype"] = true
		}
		if wantTail[1] != "" {
			wantNames["targettype"] = true
		}
	}
	var wantRaw strings.Builder
	for _, it := range wad.Items {
		wantRaw.WriteString(it.Text)
		wantRaw.WriteByte('\n')
	}
	if len(wantTail) >= 2 {
		if wantTail[0] != "" {
			fmt.Fprintf(&wantRaw, "MyType = %q\n", wantTail[0])
		}
		if wantTail[1] != "" {
			fmt.Fprintf(&wantRaw, "TargetType = %q\n", wantTail[1])
		}
	}
	hasSecret, allAccepted := false, true
	for _, it := range wad.Items {
		hasSecret = hasSecret || it.Secret
	}
	for _, ln := range order {
		if o := Ask(items[ln].val); !o.Accepts {
			allAccepted = false
			obs.ValuesOutside++
		}
	}
	// what a successful return of a receiver must be (every receiver, every framing, every budget)
	checkOK := func(kind string, v cutVariant, r Recv, sig func(string) map[string]string) *AdDiff {
		if r.RestErr != nil || !bytes.Equal(r.Rest, wantRest) || r.Unread != 0 {
			return &AdDiff{sig("consumption"),
				fmt.Sprintf("%s on %s framing left %d bytes of the message unread (%q), the ad ends %d bytes before the end; %d connection bytes never read (%v)",
					kind, v.name, len(r.Rest), trunc(r.Rest), len(wantRest), r.Unread, r.RestErr)}
		}
		switch kind {
		case "parse", "parseMax":
			got := map[string]bool{}
			for _, n := range r.Ad.GetAttributes() {
				got[strings.ToLower(n)] = true
			}
			if d := setDiff(wantNames, got); d != "" {
				return &AdDiff{sig("attribute set"), fmt.Sprintf("%s on %s framing reconstructs a different attribute set: %s", kind, v.name, d)}
			}
			for _, ln := range order {
				if ln == "servertime" && sc.Cfg.Opts&BitServerTime != 0 && !rawSender {
					continue // the sender's or the injected value: either (statement silent)
				}
				f := items[ln]
				o := Ask(f.val)
				if !o.Accepts {
					obs.ValuesOutside++
					continue
				}
				obs.ValuesChecked++
				e, _ := r.Ad.Lookup(ln)
				if same, gotv := SameValue(e, &o); !same {
					want := o.Canon
					if o.Lit != nil {
						want = o.Lit.String()
					}
					ld := &LitDiff{Kind: KindOf(e)}
					s := LitSignature(f.val, ld)
					return &AdDiff{s, fmt.Sprintf("attribute %s rendered as %q: the full parser assigns %s, %s decoded %s", ln, f.val, want, kind, gotv)}
				}
			}
			for i, tn := range []string{"mytype", "targettype"} {
				if len(wantTail) >= 2 && wantTail[i] != "" {
					if s, ok := r.Ad.EvaluateAttrString(tn); !ok || s != wantTail[i] {
						return &AdDiff{sig("type name"), fmt.Sprintf("%s reconstructs %s = %q, sender's type name is %q", kind, tn, s, wantTail[i])}
					}
				}
			}
		case "raw":
			if r.Raw != wantRaw.String() {
				return &AdDiff{sig("raw text"), fmt.Sprintf("GetClassAdRaw on %s framing returns %q, the sender rendered %q", v.name, trunc([]byte(r.Raw)), trunc([]byte(wantRaw.String())))}
			}
		}
		return nil
	}
	for vi, v := range variants {
		for _, kind := range []string{"parse", "parseMax", "raw", "skip"} {
			obs.Receivers++
			r := Receive(kind, sc.Cfg.St, key, v.raw)
			sig := func(what string) map[string]string {
				s := base("Receive")
				s["reader"] = kind
				s["cut"] = v.name
				s["what"] = what
				return s
			}
			wantOK := sc.RecvOK || sc.Pad || rawSender
			if kind == "skip" && hasSecret && sc.Cfg.St == KeyedClear {
				// SkipClassAdRaw does not know the marker (DESIGN section 7, observation outside the statements)
				if r.Err != nil || !bytes.Equal(r.Rest, wantRest) {
					obs.SkipMarkerDesyn++
				}
				continue
			}
			if !wantOK {
				if r.Err == nil {
					return &AdDiff{sig("succeeds where the others fail"),
						fmt.Sprintf("%s succeeds on a type-less ad at the end of a message on an encrypting stream (variant %d); the specification says every receiver fails there", kind, vi)}
				}
				continue
			}
			if r.Err != nil {
				if (kind == "parse" || kind == "parseMax") && !allAccepted {
					continue // a rendered text the full parser rejects: outside the statement
				}
				return &AdDiff{sig("error"), fmt.Sprintf("%s fails on %s framing: %v", kind, v.name, r.Err)}
			}
			if d := checkOK(kind, v, r, sig); d != nil {
				return d
			}
		}
	}

	// ---- the size-limited parsing receiver under every byte budget of the plan: a clean
	// error, or exactly what the unlimited receiver yields (ad, type names, consumption, trailer)
	if sc.Budgets != "" && (sc.RecvOK || sc.Pad || rawSender) {
		payload := 0
		for _, f := range frames {
			payload += len(f.Data)
		}
		type bound struct {
			at   int
			name string
		}
		var bounds []bound
		cum := 0
		for _, it := range wad.Items {
			if it.Secret {
				cum += len(refcodec.C08SecretMarker) + 1
				bounds = append(bounds, bound{cum, "after marker"})
			}
			cum += len(it.Text) + 1
			bounds = append(bounds, bound{cum, "after item"})
		}
		if sc.Cfg.Opts&BitNoTypes == 0 || rawSender {
			cum += len(wantTail[0]) + 1
			bounds = append(bounds, bound{cum, "after MyType"})
			cum += len(wantTail[1]) + 1
			bounds = append(bounds, bound{cum, "after TargetType"})
		}
		class := func(b int) string {
			switch {
			case b == 0:
				return "unlimited"
			case b >= payload:
				return "whole message"
			}
			for _, x := range bounds {
				if x.at == b {
					return x.name
				}
			}
			if b > cum {
				return "past the ad"
			}
			return "inside a field"
		}
		var budgets []int
		if sc.Budgets == "all" && payload <= 600 {
			for b := 0; b <= payload+4; b++ {
				budgets = append(budgets, b)
			}
		} else {
			seen := map[int]bool{}
			add := func(b int) {
				if b >= 0 && !seen[b] {
					seen[b] = true
					budgets = append(budgets, b)
				}
			}
			add(0)
			add(1)
			for _, x := range bounds {
				add(x.at - 1)
				add(x.at)
				add(x.at + 1)
			}
			add(payload)
			add(payload + 1)
		}
		sender := variants[0]
		for _, b := range budgets {
			obs.Receivers++
			obs.BudgetRuns++
			r := ReceiveBudget(sc.Cfg.St, key, sender.raw, b)
			cls := class(b)
			sig := func(what string) map[string]string {
				s := base("Receive")
				s["reader"] = "parseMax"
				s["budget"] = cls
				s["cut"] = sender.name
				s["what"] = what
				return s
			}
			if r.Err != nil {
				switch {
				case strings.Contains(r.Err.Error(), "receiver panic"):
					return &AdDiff{sig("panic"), fmt.Sprintf("GetClassAdWithMaxSize(%d) on a %d-byte message: %v", b, payload, r.Err)}
				case (b == 0 || b >= payload) && allAccepted:
					return &AdDiff{sig("error"), fmt.Sprintf("GetClassAdWithMaxSize(%d) refuses an ad although the budget covers the whole %d-byte message: %v", b, payload, r.Err)}
				}
				obs.BudgetRefused++
				continue
			}
			obs.BudgetAccepted++
			if d := checkOK("parseMax", sender, r, sig); d != nil {
				d.Detail = fmt.Sprintf("GetClassAdWithMaxSize with budget %d (the ad's strings take %d bytes, the message %d) returns success, but not the unlimited receiver's result: %s", b, cum, payload, d.Detail)
				return d
			}
		}
	}
	return nil
}

func trunc(b []byte) string {
	if len(b) > 160 {
		return string(b[:160]) + "..."
	}
	return string(b)
}

func setDiff(want, got map[string]bool) string {
	var miss, extra []string
	for k := range want {
		if !got[k] {
			miss = append(miss, k)
		}
	}
	for k := range got {
		if !want[k] {
			extra = append(extra, k)
		}
	}
	if len(miss)+len(extra) == 0 {
		return ""
	}
	sort.Strings(miss)
	sort.Strings(extra)
	return fmt.Sprintf("missing %v, unexpected %v", miss, extra)
}

type cutVariant struct {
	name string
	raw  []byte
}

// cutVariants realises the specification's cut plan: "one" = the framing the real
// sender chose; "each" = additionally a frame boundary after every field;
// "split" = additionally every field cut in its middle (and small pieces). With
// AllCuts every single byte offset is tried as a lone extra cut.
func cutVariants(sc *AdScenario, raw []byte, frames []refcodec.C08ClearFrame, wad *refcodec.C08WireAd, key []byte) []cutVariant {
	total := 0
	for _, f := range frames {
		total += len(f.Data)
	}
	out := []cutVariant{{"sender", raw}} // real sender -> real receiver, untouched
	reframe := func(name string, every int, cuts map[int]bool) {
		out = append(out, cutVariant{name, refcodec.C08Reframe(frames, Sealer(key, sc.Salt+name), every, cuts)})
	}
	switch sc.Cut {
	case "each":
		cuts := map[int]bool{}
		for _, b := range wad.Bounds {
			cuts[b] = true
		}
		reframe("each", 0, cuts)
	case "split":
		cuts := map[int]bool{}
		prev := 0
		for _, b := range wad.Bounds {
			cuts[(prev+b)/2] = true
			if b-prev > 9 {
				cuts[prev+4] = true // inside a length prefix / count
				cuts[b-1] = true    // just before the terminator
			}
			prev = b
		}
		reframe("split", 0, cuts)
		reframe("split3", 3, nil)
	}
	if sc.AllCuts && total <= 400 {
		for k := 1; k < total; k++ {
			reframe("single", 0, map[int]bool{k: true})
		}
	}
	return out
}

// MarshalScenario is used for evidence samples.
func MarshalScenario(sc *AdScenario) json.RawMessage {
	b, _ := json.Marshal(sc)
	return b
}
