package adwire

import (
	"fmt"
	"math/rand"
	"strings"
)

// Expression source texts from the ClassAd grammar (classad.y). The pool is the
// Go expansion of the specification's abstract "public attribute value": every
// production of the grammar applied to a small atom set, exhaustively to depth
// 1, with every depth-1 expression again as an operand of every production
// class at depth 2, and seeded deeper nesting.

var atoms = []string{`1`, `2.5`, `"s"`, `true`, `X`, `undefined`}

var moreAtoms = []string{
	`0`, `-1`, `42`, `9223372036854775807`, `-9223372036854775808`,
	`0.5`, `1e10`, `1e-07`, `1.7976931348623157e+308`, `5e-324`, `3.0`, `-0.0`,
	`""`, `"a b"`, `"q\"q"`, `"b\\s"`, `"tab\there"`, `"é"`, `"日本"`, `"nl\nfeed"`, `"\001"`,
	`TRUE`, `False`, `error`, `MY.X`, `TARGET.Y`, `Other_Attr9`,
}

var binOps = []string{"+", "-", "*", "/", "%", "==", "!=", "<", "<=", ">", ">=", "&&", "||", "&", "|", "^", "<<", ">>", ">>>", "is", "isnt", "=?=", "=!="}
var unOps = []string{"-", "!", "~", "+"}

// one representative operator per precedence level (used at depth 2 in the quick tier)
var levelOps = []string{"||", "&&", "|", "^", "&", "==", "<", "<<", "+", "*"}

func depth1(at []string) []string {
	var out []string
	for _, u := range unOps {
		for _, a := range at {
			out = append(out, u+a)
			out = append(out, u+"("+a+")")
		}
	}
	for _, op := range binOps {
		for _, a := range at {
			for _, b := range at {
				out = append(out, a+" "+op+" "+b)
			}
		}
	}
	for _, a := range at {
		for _, b := range at {
			out = append(out, a+" ?: "+b)
			out = append(out, "strcat("+a+", "+b+")")
			out = append(out, "{"+a+", "+b+"}")
			out = append(out, "["+"p = "+a+"; q = "+b+"]")
			for _, c := range at {
				out = append(out, a+" ? "+b+" : "+c)
				out = append(out, "ifThenElse("+a+", "+b+", "+c+")")
			}
		}
		out = append(out, "size("+a+")", "{"+a+"}", "{}", "[p = "+a+"].p", "{"+a+"}[0]", "("+a+")", "(("+a+"))", "f()", "f("+a+"; "+a+")")
	}
	return out
}

func depth2(d1 []string, ops []string, at []string) []string {
	var out []string
	for _, e := range d1 {
		pe := "(" + e + ")"
		for _, op := range ops {
			for _, a := range at {
				out = append(out, pe+" "+op+" "+a, a+" "+op+" "+pe)
			}
		}
		out = append(out, "-"+pe, "!"+pe, pe+" ? "+pe+" : 1", "{"+pe+", "+e+"}", "[p = "+e+"]", "size("+e+")", pe+" ?: "+pe)
	}
	return out
}

// deepExpr builds a random expression of the given depth.
func deepExpr(r *rand.Rand, depth int) string {
	all := append(append([]string{}, atoms...), moreAtoms...)
	if depth <= 0 {
		return all[r.Intn(len(all))]
	}
	sub := func() string { return deepExpr(r, depth-1-r.Intn(2)) }
	switch r.Intn(9) {
	case 0:
		return unOps[r.Intn(len(unOps))] + "(" + sub() + ")"
	case 1, 2, 3:
		return "(" + sub() + ") " + binOps[r.Intn(len(binOps))] + " (" + sub() + ")"
	case 4:
		return "(" + sub() + ") ? (" + sub() + ") : (" + sub() + ")"
	case 5:
		return "{" + sub() + ", " + sub() + "}"
	case 6:
		return "[a = " + sub() + "; b = " + sub() + "]"
	case 7:
		return "strcat(" + sub() + ", " + sub() + ")"
	default:
		return sub() + " " + binOps[r.Intn(len(binOps))] + " " + sub()
	}
}

// stringLiterals returns quoted string literals over a character set with
// quotes, backslashes, controls and multi-byte UTF-8, all strings up to maxLen.
func stringLiterals(maxLen int) []string {
	chars := []string{"a", `"`, `\`, " ", "\t", "\n", "\x01", "\x7f", "é", "日", "😀", "'", "=", ";", "]"}
	var vals []string
	var rec func(prefix string, n int)
	rec = func(prefix string, n int) {
		vals = append(vals, prefix)
		if n == 0 {
			return
		}
		for _, c := range chars {
			rec(prefix+c, n-1)
		}
	}
	rec("", maxLen)
	out := make([]string, len(vals))
	for i, v := range vals {
		out[i] = quoteClassAd(v)
	}
	return out
}

// quoteClassAd renders a string value as a ClassAd string literal (the
// grammar's escapes: \" \\ \b \f \n \r \t and octal for other controls).
func quoteClassAd(s string) string {
	var b strings.Builder
	b.WriteByte('"')
	for _, r := range s {
		switch r {
		case '"':
			b.WriteString(`\"`)
		case '\\':
			b.WriteString(`\\`)
		case '\n':
			b.WriteString(`\n`)
		case '\t':
			b.WriteString(`\t`)
		case '\r':
			b.WriteString(`\r`)
		default:
			if r < 0x20 {
				fmt.Fprintf(&b, "\\%03o", r)
			} else {
				b.WriteRune(r)
			}
		}
	}
	b.WriteByte('"')
	return b.String()
}

// ExprPool returns the value texts of a tier.
func ExprPool(thorough bool, r *rand.Rand) (pool []string, counts map[string]int) {
	counts = map[string]int{}
	add := func(label string, xs []string) {
		counts[label] += len(xs)
		pool = append(pool, xs...)
	}
	add("atoms", atoms)
	add("atoms", moreAtoms)
	d1 := depth1(atoms)
	add("depth1", d1)
	if thorough {
		add("depth2", depth2(d1, binOps, atoms[:3]))
		add("strings", stringLiterals(3))
		var deep []string
		for i := 0; i < 40000; i++ {
			deep = append(deep, deepExpr(r, 3+r.Intn(3)))
		}
		add("deep_seeded", deep)
	} else {
		add("depth2", depth2(d1, levelOps, atoms[:2]))
		add("strings", stringLiterals(2))
		var deep []string
		for i := 0; i < 3000; i++ {
			deep = append(deep, deepExpr(r, 3+r.Intn(3)))
		}
		add("deep_seeded", deep)
	}
	return pool, counts
}
