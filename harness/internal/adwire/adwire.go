// Package adwire binds spec/ClassAdWire.tla and spec/LiteralShortcut.tla to the
// real ClassAd wire code of cedar (message/classad.go, message/skip.go) for the
// properties C08 and C09: it performs the specification's Put on a real
// stream in one of the three stream states, captures every emitted byte,
// decodes it with the independent reference codec, hands copies to the three
// real receivers and compares with what the specification allows.
package adwire

import (
	"context"
	"crypto/sha256"
	"fmt"

	"cedarverif/internal/refcodec"
	"cedarverif/internal/wire"

	"github.com/PelicanPlatform/classad/classad"
	"github.com/bbockelm/cedar/message"
	"github.com/bbockelm/cedar/stream"
)

// Stream states of the specification.
const (
	NoKey      = "nokey"
	Enc        = "enc"
	KeyedClear = "keyedClear"
)

var bg = context.Background()

// Key derives the session key of a scenario.
func Key(salt string) []byte {
	h := sha256.Sum256([]byte("cedarverif-adwire-key/" + salt))
	return h[:]
}

// End is one real endpoint on an in-memory connection.
type End struct {
	Conn *wire.BufConn
	St   *stream.Stream
}

// NewEnd builds a real stream in the given state. Both ends of a scenario
// install the key before any traffic, so the handshake digests are all-zero.
func NewEnd(state string, key []byte) (*End, error) {
	c := wire.NewBufConn(state)
	s := stream.NewStream(c)
	if state != NoKey {
		if err := s.SetSymmetricKey(key); err != nil {
			return nil, err
		}
		if state == KeyedClear {
			s.SetEncrypted(false)
		}
	}
	return &End{Conn: c, St: s}, nil
}

// Opener returns the reference opener for bytes emitted by a sender in state.
func Opener(state string, key []byte) *refcodec.Opener {
	if state == NoKey {
		return nil
	}
	return refcodec.NewOpener(key, [32]byte{}, [32]byte{})
}

// Sealer returns a fresh reference sealer (its own IV) for re-framed traffic.
func Sealer(key []byte, salt string) *refcodec.Sealer {
	h := sha256.Sum256([]byte("cedarverif-adwire-iv/" + salt))
	var iv [16]byte
	copy(iv[:], h[:16])
	return refcodec.NewSealer(key, iv, [32]byte{}, [32]byte{})
}

// Send runs f on a fresh real sender message in the given state, finishes the
// message and returns every byte written to the connection.
func Send(state string, key []byte, f func(m *message.Message) error) (raw []byte, err error) {
	defer func() {
		if r := recover(); r != nil {
			err = fmt.Errorf("sender panic: %v", r)
		}
	}()
	e, err := NewEnd(state, key)
	if err != nil {
		return nil, err
	}
	m := message.NewMessageForStream(e.St)
	if err := f(m); err != nil {
		return e.Conn.TakeOut(), err
	}
	if err := m.FinishMessage(bg); err != nil {
		return e.Conn.TakeOut(), err
	}
	return e.Conn.TakeOut(), nil
}

// Recv is the result of one real receiver on one copy of the bytes.
type Recv struct {
	Kind    string // parse | parseMax | raw | skip
	Err     error
	Ad      *classad.ClassAd
	Raw     string
	Rest    []byte // plaintext of the message left unread after the receiver returned
	RestErr error
	Unread  int // bytes of the connection never pulled in
}

// Receive feeds raw to a fresh real receiver stream in the given state and runs
// one of the receivers, then drains what the receiver left of the message.
func Receive(kind, state string, key []byte, raw []byte) (r Recv) {
	r.Kind = kind
	defer func() {
		if p := recover(); p != nil {
			r.Err = fmt.Errorf("receiver panic: %v", p)
		}
	}()
	e, err := NewEnd(state, key)
	if err != nil {
		r.Err = err
		return
	}
	e.Conn.Feed(raw)
	m := message.NewMessageFromStream(e.St)
	switch kind {
	case "parse":
		r.Ad, r.Err = m.GetClassAd(bg)
	case "parseMax":
		r.Ad, r.Err = m.GetClassAdWithMaxSize(bg, 64<<20)
	case "raw":
		r.Raw, r.Err = m.GetClassAdRaw(bg)
	case "skip":
		r.Err = m.SkipClassAdRaw(bg)
	default:
		r.Err = fmt.Errorf("unknown receiver %q", kind)
	}
	if r.Err == nil {
		r.Rest, r.RestErr = m.GetRemainingBytes(bg)
		r.Unread = e.Conn.Unread()
	}
	return
}

// ReceiveBudget runs the size-limited parsing receiver GetClassAdWithMaxSize with the
// given byte budget on a fresh copy of the bytes (0 = unlimited).
func ReceiveBudget(state string, key []byte, raw []byte, budget int) (r Recv) {
	r.Kind = "parseMax"
	defer func() {
		if p := recover(); p != nil {
			r.Err = fmt.Errorf("receiver panic: %v", p)
		}
	}()
	e, err := NewEnd(state, key)
	if err != nil {
		r.Err = err
		return
	}
	e.Conn.Feed(raw)
	m := message.NewMessageFromStream(e.St)
	r.Ad, r.Err = m.GetClassAdWithMaxSize(bg, budget)
	if r.Err == nil {
		r.Rest, r.RestErr = m.GetRemainingBytes(bg)
		r.Unread = e.Conn.Unread()
	}
	return
}

// Trailer is what the harness, as the application, writes after an ad so that
// the position at which each receiver stopped becomes observable.
const Trailer = "~cedarverif-trailer~"

// TrailerBytes is the trailer as it appears in the plaintext of a message whose
// last part is written in the given state.
func TrailerBytes(state string) []byte { return refcodec.C08AdString(Trailer, state == Enc) }
