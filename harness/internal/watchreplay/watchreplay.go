// Package watchreplay binds spec/Watch.tla to the real cedar code (growth
// module G03: package watch - EncodeRequest / DecodeRequest / EncodeHeader /
// DecodeHeader / Kind.HasAd - carried by message.PutClassAd / GetClassAd over a
// stream.Stream).
//
// Codec behaviours (one record shape, optionally damaged on the wire) are
// replayed in four passes:
//
//	M  in memory: Decode(Encode(x)) by the real package;
//	E  real Encode + PutClassAd over a real stream; the bytes are parsed by the
//	   INDEPENDENT reference codec (ref.go) and compared with the model's ad;
//	D  the reference codec renders the model's (possibly damaged) ad; a real
//	   stream + GetClassAd + the real Decode must give the model's result;
//	T  the same bytes cut short at a seeded position must give an error.
//
// Stream behaviours (a session of connections; per connection the request
// cursor, every message the server put on the wire, the cut, and the events the
// model's client delivers) are replayed per connection:
//
//	Q  request: real EncodeRequest -> reference parser, reference-built request
//	   -> real DecodeRequest (the resume cursor survives both ways);
//	R  reference server -> real reader (GetClassAd + DecodeHeader + HasAd +
//	   GetClassAd): exactly the model's events, in order, none partial, and an
//	   error where the model loses the connection;
//	S  real server (EncodeHeader + PutClassAd) -> reference parser: every
//	   header / ad equals the model's;
//	C  real server -> real reader, cut where the model cuts.
//
// The events the real reader returned are folded into a view and a persisted
// cursor, which must equal the model's after every connection.
package watchreplay

import (
	"bytes"
	"context"
	"encoding/binary"
	"encoding/json"
	"fmt"
	"runtime"
	"sort"

	"cedarverif/internal/refcodec"
	"cedarverif/internal/wire"

	"github.com/PelicanPlatform/classad/classad"
	"github.com/bbockelm/cedar/message"
	"github.com/bbockelm/cedar/stream"
	"github.com/bbockelm/cedar/watch"
)

// ---------------------------------------------------------------------------
// scenarios

type Val struct {
	T string          `json:"t"`
	V json.RawMessage `json:"v,omitempty"`
}

type Rec struct {
	What       string `json:"what"`
	AdType     string `json:"adType,omitempty"`
	Constraint string `json:"constraint,omitempty"`
	Cursor     string `json:"cursor,omitempty"`
	Key        string `json:"key,omitempty"`
	Kind       int    `json:"kind,omitempty"`
}

type Res struct {
	OK         bool   `json:"ok"`
	Kind       int    `json:"kind,omitempty"`
	Key        string `json:"key,omitempty"`
	Cursor     string `json:"cursor,omitempty"`
	AdType     string `json:"adType,omitempty"`
	Constraint string `json:"constraint,omitempty"`
}

type Ev struct {
	Kind   int `json:"kind"`
	Key    int `json:"key"`
	Cursor int `json:"cursor"`
	Ver    int `json:"ver"`
}

type Msg struct {
	T     string `json:"t"`
	Ev    Ev     `json:"ev"`
	Whole bool   `json:"whole"`
}

type Conn struct {
	Conn      int   `json:"conn"`
	Req       int   `json:"req"`
	Wire      []Msg `json:"wire"`
	Delivered []Ev  `json:"delivered"`
	View      []int `json:"view"`
	Persisted int   `json:"persisted"`
	InSnap    bool  `json:"inSnap"`
}

type LogEntry struct {
	Op  string `json:"op"`
	Key int    `json:"key"`
}

type Scenario struct {
	Mode string `json:"mode"`
	// codec
	Rec    *Rec                       `json:"rec,omitempty"`
	Ad     map[string]json.RawMessage `json:"ad,omitempty"`
	Damage string                     `json:"damage,omitempty"`
	Res    *Res                       `json:"res,omitempty"`
	// stream
	Log   []LogEntry `json:"log,omitempty"`
	Conns []Conn     `json:"conns,omitempty"`
}

type Variant struct {
	Salt   int  `json:"salt"`
	Enc    bool `json:"enc"`    // AES-GCM keyed stream (strings are length-prefixed)
	Split  bool `json:"split"`  // reference-built messages travel as two frames
	LenMod int  `json:"lenmod"` // length class (mod 3) of the non-empty byte strings: base64 padding
	Order  int  `json:"order"`  // attribute order of reference-built ads
	CutSel int  `json:"cutsel"` // where a cut falls inside a message
}

type Diff struct {
	Invariant string
	Action    string
	Shape     string
	Damage    string
	Mode      string
	Pass      string
	Detail    string
	Broken    bool
	Observed  string
}

func (d *Diff) Error() string {
	return fmt.Sprintf("[pass %s] %s violated at %s (%s, damage %s, %s): %s", d.Pass, d.Invariant, d.Action, d.Shape, d.Damage, d.Mode, d.Detail)
}

func Signature(d *Diff) map[string]string {
	return map[string]string{"spec": "Watch", "invariant": d.Invariant, "action": d.Action,
		"shape": d.Shape, "damage": d.Damage, "mode": d.Mode}
}

type Stats struct {
	RealCalls      int64
	RoundTrips     int64 // in-memory decode(encode(x)) compared
	WireEncodes    int64 // real encoder output parsed by the reference codec
	WireDecodes    int64 // reference-built records decoded by the real code
	Truncations    int64 // cut records that gave an error
	ErrorsAgreed   int64
	EitherAccepted int64 // outcome the documentation leaves open: real code accepted
	EitherRefused  int64
	Connections    int64
	EventsCompared int64
	CutsInsideMsg  int64
}

func (s *Stats) Add(o *Stats) {
	s.RealCalls += o.RealCalls
	s.RoundTrips += o.RoundTrips
	s.WireEncodes += o.WireEncodes
	s.WireDecodes += o.WireDecodes
	s.Truncations += o.Truncations
	s.ErrorsAgreed += o.ErrorsAgreed
	s.EitherAccepted += o.EitherAccepted
	s.EitherRefused += o.EitherRefused
	s.Connections += o.Connections
	s.EventsCompared += o.EventsCompared
	s.CutsInsideMsg += o.CutsInsideMsg
}

var bg = context.Background()

// ---------------------------------------------------------------------------
// concrete values

type prng uint64

func (p *prng) next() uint64 {
	x := uint64(*p)
	x ^= x << 13
	x ^= x >> 7
	x ^= x << 17
	*p = prng(x)
	return x
}

func fill(b []byte, seed uint64) {
	p := prng(seed*0x9E3779B97F4A7C15 + 0x51ED27)
	if p == 0 {
		p = 1
	}
	for i := range b {
		if i%8 == 0 {
			p.next()
		}
		b[i] = byte(uint64(p) >> (8 * (i % 8)))
	}
}

func key32(v Variant) []byte {
	k := make([]byte, 32)
	fill(k, uint64(v.Salt)+4242)
	return k
}

func adTypeOf(c string) string {
	switch c {
	case "plain":
		return "StartdAd"
	case "quoted":
		return `Job"Ad\x`
	}
	return c
}

func constraintOf(c string) string {
	switch c {
	case "expr":
		return `DAGManJobId == 42`
	case "exprQuoted":
		return `Owner == "alice" && Dir == "C:\\tmp" && ClusterId == 7`
	}
	return c
}

// bytesOf maps an abstract byte-string class to concrete bytes.
func bytesOf(c string, v Variant, which int) []byte {
	switch c {
	case "nil":
		return nil
	case "empty":
		return []byte{}
	case "b1":
		b := make([]byte, 9+(v.LenMod+which)%3)
		fill(b, uint64(v.Salt)*7+uint64(which))
		return b
	case "bnul":
		b := []byte("slot1@host\x00<10.0.0.1:9618>\xff\xfe")
		return append(b, make([]byte, (v.LenMod+which)%3)...)
	}
	return []byte("?" + c)
}

func keyBytes(k int) []byte {
	if k == 0 {
		return nil
	}
	return []byte(fmt.Sprintf("slot%d@host\x00<10.0.0.%d:9618>", k, k))
}

func cursorBytes(c int, v Variant) []byte {
	if c < 0 {
		return nil
	}
	b := make([]byte, 8+v.LenMod)
	binary.BigEndian.PutUint64(b, uint64(c))
	for i := 8; i < len(b); i++ {
		b[i] = byte(v.Salt + i)
	}
	return b
}

func cursorValue(b []byte) (int, bool) {
	if len(b) == 0 {
		return -1, true
	}
	if len(b) < 8 {
		return 0, false
	}
	return int(binary.BigEndian.Uint64(b[:8])), true
}

const adNote = `say "hi" \ bye`

func adName(k int) string { return fmt.Sprintf("slot%d@host", k) }

func realAd(e Ev) *classad.ClassAd {
	ad := classad.New()
	ad.InsertAttrString("Name", adName(e.Key))
	ad.InsertAttr("Ver", int64(e.Ver))
	ad.InsertAttrString("Note", adNote)
	return ad
}

func refAdItems(e Ev) []string {
	return []string{
		"Name = " + refQuote(adName(e.Key)),
		fmt.Sprintf("Ver = %d", e.Ver),
		"Note = " + refQuote(adNote),
	}
}

// ---------------------------------------------------------------------------
// wire helpers

type sender struct {
	v  Variant
	sl *refcodec.Sealer
	n  int
}

func newRefSender(v Variant) *sender {
	s := &sender{v: v}
	if v.Enc {
		var iv [16]byte
		fill(iv[:], uint64(v.Salt)+31)
		s.sl = refcodec.NewSealer(key32(v), iv, [32]byte{}, [32]byte{})
	}
	return s
}

// message renders one message (one or two frames).
func (s *sender) message(payload []byte) []byte {
	s.n++
	parts := [][]byte{payload}
	if s.v.Split && len(payload) >= 2 {
		k := 1 + (s.v.CutSel+s.n*13)%(len(payload)-1)
		parts = [][]byte{payload[:k], payload[k:]}
	}
	var out []byte
	for i, p := range parts {
		end := byte(0)
		if i == len(parts)-1 {
			end = 1
		}
		if s.sl != nil {
			out = append(out, s.sl.Seal(end, p).Encode()...)
		} else {
			out = append(out, refcodec.Frame{End: end, Body: append([]byte(nil), p...)}.Encode()...)
		}
	}
	return out
}

func shuffle(items []string, order int) []string {
	out := append([]string(nil), items...)
	if order%3 == 1 {
		sort.Strings(out)
	} else if order%3 == 2 {
		sort.Sort(sort.Reverse(sort.StringSlice(out)))
	}
	return out
}

func newRealStream(c *wire.BufConn, v Variant) (*stream.Stream, error) {
	st := stream.NewStream(c)
	if v.Enc {
		if err := st.SetSymmetricKey(key32(v)); err != nil {
			return nil, err
		}
	}
	return st, nil
}

// parseMessages splits raw bytes a real sender wrote into messages and parses
// each as an ad, with the reference codec only.
func parseMessages(raw []byte, v Variant) ([]*refAd, error) {
	var op *refcodec.Opener
	if v.Enc {
		op = refcodec.NewOpener(key32(v), [32]byte{}, [32]byte{})
	}
	frames, err := refcodec.C08OpenAll(raw, op, v.Enc)
	if err != nil {
		return nil, err
	}
	var out []*refAd
	var cur []refcodec.C08ClearFrame
	for _, f := range frames {
		cur = append(cur, f)
		if f.End == 1 {
			ad, err := refParseAd(cur)
			if err != nil {
				return nil, fmt.Errorf("message %d: %w", len(out)+1, err)
			}
			out = append(out, ad)
			cur = nil
		}
	}
	if len(cur) != 0 {
		return nil, fmt.Errorf("last message has no final frame")
	}
	return out, nil
}

func putAd(st *stream.Stream, ad *classad.ClassAd) error {
	m := message.NewMessageForStream(st)
	if err := m.PutClassAd(bg, ad); err != nil {
		return err
	}
	return m.FinishMessage(bg)
}

func guarded(pass string, mk func(inv, action, detail string) *Diff, f func() *Diff) (d *Diff) {
	defer func() {
		if r := recover(); r != nil {
			buf := make([]byte, 2048)
			buf = buf[:runtime.Stack(buf, false)]
			d = mk("NoCrash", "Decode", fmt.Sprintf("panic: %v\n%s", r, buf))
			d.Pass = pass
		}
	}()
	return f()
}

// ---------------------------------------------------------------------------
// codec behaviours

func (sc *Scenario) shape() string {
	r := sc.Rec
	if r == nil {
		return "stream"
	}
	if r.What == "header" {
		return fmt.Sprintf("header/kind=%d/key=%s/cursor=%s", r.Kind, r.Key, r.Cursor)
	}
	return fmt.Sprintf("request/type=%s/constraint=%s/cursor=%s", orEmpty(r.AdType), orEmpty(r.Constraint), r.Cursor)
}

func orEmpty(s string) string {
	if s == "" {
		return "empty"
	}
	return s
}

func modeOf(v Variant) string {
	if v.Enc {
		return "encrypted"
	}
	return "plain"
}

// either: damage whose outcome the documentation leaves open (error, or the
// damaged attribute reads as absent).
func either(dm string) bool {
	return dm == "keyNotString" || dm == "cursorNotString" || dm == "constraintNotString"
}

// modelItems renders the model's abstract ad with the reference codec.
func modelItems(sc *Scenario, v Variant) ([]string, error) {
	var items []string
	names := make([]string, 0, len(sc.Ad))
	for n := range sc.Ad {
		if n != "what" {
			names = append(names, n)
		}
	}
	sort.Strings(names)
	for _, n := range names {
		var val Val
		if err := json.Unmarshal(sc.Ad[n], &val); err != nil {
			return nil, fmt.Errorf("attribute %s: %v", n, err)
		}
		lit, present, err := literalOf(sc, n, val, v)
		if err != nil {
			return nil, err
		}
		if present {
			items = append(items, n+" = "+lit)
		}
	}
	return items, nil
}

// stringOf gives the concrete string a model string value stands for.
func stringOf(sc *Scenario, attr string, val Val, v Variant) (string, error) {
	var plain string
	if err := json.Unmarshal(val.V, &plain); err == nil {
		switch attr {
		case refAttrAdType:
			return adTypeOf(plain), nil
		case refAttrConstraint:
			return constraintOf(plain), nil
		}
		return plain, nil // e.g. WatchKind = "Upsert"
	}
	var enc struct {
		K string `json:"k"`
		B string `json:"b"`
	}
	if err := json.Unmarshal(val.V, &enc); err != nil {
		return "", fmt.Errorf("attribute %s: unknown string value %s", attr, val.V)
	}
	switch enc.K {
	case "empty":
		return "", nil
	case "bad":
		return "!not base64!", nil
	case "b64":
		return refB64(bytesOf(enc.B, v, whichOf(attr))), nil
	}
	return "", fmt.Errorf("attribute %s: string class %q", attr, enc.K)
}

func whichOf(attr string) int {
	if attr == refAttrKey {
		return 1
	}
	return 2
}

func literalOf(sc *Scenario, attr string, val Val, v Variant) (lit string, present bool, err error) {
	switch val.T {
	case "absent":
		return "", false, nil
	case "int":
		var n int64
		if err := json.Unmarshal(val.V, &n); err != nil {
			return "", false, err
		}
		return fmt.Sprintf("%d", n), true, nil
	case "real":
		return "1.5", true, nil
	case "str":
		s, err := stringOf(sc, attr, val, v)
		if err != nil {
			return "", false, err
		}
		return refQuote(s), true, nil
	}
	return "", false, fmt.Errorf("attribute %s: value type %q", attr, val.T)
}

type decoded struct {
	ok         bool
	err        string
	kind       int64
	key        []byte
	cursor     []byte
	adType     string
	constraint string
}

func realDecode(what string, ad *classad.ClassAd) decoded {
	if what == "header" {
		k, key, cur, err := watch.DecodeHeader(ad)
		if err != nil {
			return decoded{err: err.Error()}
		}
		return decoded{ok: true, kind: int64(k), key: key, cursor: cur}
	}
	t, c, cur, err := watch.DecodeRequest(ad)
	if err != nil {
		return decoded{err: err.Error()}
	}
	return decoded{ok: true, adType: t, constraint: c, cursor: cur}
}

// compareRes compares a real decode result with the model's.
func compareRes(sc *Scenario, v Variant, got decoded) string {
	exp := sc.Res
	if exp.OK != got.ok {
		if exp.OK {
			return "the model decodes this record, the real code fails: " + got.err
		}
		return fmt.Sprintf("the model rejects this record, the real code returned %+v", got)
	}
	if !exp.OK {
		return ""
	}
	wantCur := bytesOf(exp.Cursor, v, 2)
	if !bytes.Equal(got.cursor, wantCur) {
		return fmt.Sprintf("cursor: got %x want %x", got.cursor, wantCur)
	}
	if exp.Cursor == "nil" && got.cursor != nil {
		return "cursor: an absent / empty cursor must decode to nil"
	}
	if sc.Rec.What == "header" {
		if got.kind != int64(exp.Kind) {
			return fmt.Sprintf("kind: got %d want %d", got.kind, exp.Kind)
		}
		wantKey := bytesOf(exp.Key, v, 1)
		if !bytes.Equal(got.key, wantKey) {
			return fmt.Sprintf("key: got %q want %q", got.key, wantKey)
		}
		if exp.Key == "nil" && got.key != nil {
			return "key: an absent / empty key must decode to nil"
		}
		if watch.Kind(got.kind).HasAd() != (got.kind == refKindUpsert) {
			return fmt.Sprintf("HasAd(%d) = %v", got.kind, watch.Kind(got.kind).HasAd())
		}
		return ""
	}
	if got.adType != adTypeOf(exp.AdType) {
		return fmt.Sprintf("adType: got %q want %q", got.adType, adTypeOf(exp.AdType))
	}
	if got.constraint != constraintOf(exp.Constraint) {
		return fmt.Sprintf("constraint: got %q want %q", got.constraint, constraintOf(exp.Constraint))
	}
	return ""
}

func realEncode(sc *Scenario, v Variant) *classad.ClassAd {
	r := sc.Rec
	if r.What == "header" {
		return watch.EncodeHeader(watch.Kind(r.Kind), bytesOf(r.Key, v, 1), bytesOf(r.Cursor, v, 2))
	}
	return watch.EncodeRequest(adTypeOf(r.AdType), constraintOf(r.Constraint), bytesOf(r.Cursor, v, 2))
}

func runCodec(sc *Scenario, v Variant, stt *Stats) *Diff {
	if sc.Rec == nil || sc.Res == nil || sc.Ad == nil {
		return &Diff{Broken: true, Detail: "codec scenario without record"}
	}
	action := "DecodeHeader"
	encAction := "EncodeHeader"
	if sc.Rec.What == "request" {
		action, encAction = "DecodeRequest", "EncodeRequest"
	}
	mk := func(inv, act, detail string) *Diff {
		return &Diff{Invariant: inv, Action: act, Shape: sc.shape(), Damage: sc.Damage, Mode: modeOf(v), Detail: detail}
	}
	invOf := func() string {
		switch {
		case sc.Damage == "none":
			return "RoundTrip"
		case either(sc.Damage):
			return "OtherDamageIsHarmless"
		}
		return "MalformedIsError"
	}

	if sc.Damage == "none" {
		// pass M: in memory
		if d := guarded("M", mk, func() *Diff {
			stt.RealCalls += 2
			got := realDecode(sc.Rec.What, realEncode(sc, v))
			if msg := compareRes(sc, v, got); msg != "" {
				d := mk("RoundTrip", action, "decode(encode(x)) in memory: "+msg)
				d.Pass = "M"
				return d
			}
			stt.RoundTrips++
			return nil
		}); d != nil {
			return d
		}
		// pass E: real encoder on the wire, read by the reference codec
		if d := guarded("E", mk, func() *Diff {
			bc := wire.NewBufConn("enc")
			st, err := newRealStream(bc, v)
			if err != nil {
				return &Diff{Broken: true, Detail: err.Error()}
			}
			stt.RealCalls += 2
			if err := putAd(st, realEncode(sc, v)); err != nil {
				d := mk("RoundTrip", encAction, "PutClassAd of the encoded record failed: "+err.Error())
				d.Pass = "E"
				return d
			}
			ads, err := parseMessages(bc.TakeOut(), v)
			if err != nil || len(ads) != 1 {
				d := mk("RoundTrip", encAction, fmt.Sprintf("the reference codec cannot read what the real encoder wrote: %v (%d messages)", err, len(ads)))
				d.Pass = "E"
				return d
			}
			if msg := compareWireAd(sc, v, ads[0]); msg != "" {
				d := mk("RoundTrip", encAction, "on the wire: "+msg)
				d.Pass = "E"
				return d
			}
			stt.WireEncodes++
			return nil
		}); d != nil {
			return d
		}
	}

	// pass D: reference-built (possibly damaged) record -> real decoder
	items, err := modelItems(sc, v)
	if err != nil {
		return &Diff{Broken: true, Detail: err.Error()}
	}
	raw := newRefSender(v).message(refPayload(shuffle(items, v.Order), v.Enc))
	if d := guarded("D", mk, func() *Diff {
		bc := wire.NewBufConn("dec")
		bc.Feed(raw)
		st, err := newRealStream(bc, v)
		if err != nil {
			return &Diff{Broken: true, Detail: err.Error()}
		}
		stt.RealCalls += 2
		ad, err := message.NewMessageFromStream(st).GetClassAd(bg)
		var got decoded
		if err != nil {
			got = decoded{err: "GetClassAd: " + err.Error()}
		} else {
			got = realDecode(sc.Rec.What, ad)
		}
		if either(sc.Damage) && sc.Res.OK && !got.ok {
			stt.EitherRefused++
			return nil
		}
		if msg := compareRes(sc, v, got); msg != "" {
			d := mk(invOf(), action, "reference-built record: "+msg)
			d.Pass = "D"
			return d
		}
		switch {
		case !sc.Res.OK:
			stt.ErrorsAgreed++
		case either(sc.Damage):
			stt.EitherAccepted++
		}
		stt.WireDecodes++
		return nil
	}); d != nil {
		return d
	}

	// pass T: the same record cut short must be an error
	if sc.Damage != "none" || !sc.Res.OK {
		return nil
	}
	cuts := []int{0, len(raw) - 1, (v.CutSel + 1) % len(raw)}
	for _, k := range cuts {
		k := k
		if d := guarded("T", mk, func() *Diff {
			bc := wire.NewBufConn("cut")
			bc.Feed(raw[:k])
			st, err := newRealStream(bc, v)
			if err != nil {
				return &Diff{Broken: true, Detail: err.Error()}
			}
			stt.RealCalls++
			ad, err := message.NewMessageFromStream(st).GetClassAd(bg)
			if err == nil {
				got := realDecode(sc.Rec.What, ad)
				if got.ok {
					d := mk("NoPartialEvent", action, fmt.Sprintf("a record cut after %d of %d bytes decoded without error: %+v", k, len(raw), got))
					d.Pass = "T"
					d.Damage = "truncated"
					return d
				}
			}
			stt.Truncations++
			return nil
		}); d != nil {
			return d
		}
	}
	return nil
}

// compareWireAd compares what the reference codec read from the real encoder
// with the model's abstract ad.
func compareWireAd(sc *Scenario, v Variant, got *refAd) string {
	for n, rawv := range sc.Ad {
		if n == "what" {
			continue
		}
		var val Val
		if err := json.Unmarshal(rawv, &val); err != nil {
			return err.Error()
		}
		g, present := got.get(n)
		switch val.T {
		case "absent":
			if present {
				return fmt.Sprintf("%s = %s is on the wire, the documentation omits it for this record", n, g.Raw)
			}
		case "int":
			var want int64
			_ = json.Unmarshal(val.V, &want)
			if !present || g.Type != "int" || g.Int != want {
				return fmt.Sprintf("%s: want integer %d, wire has %q (present=%v)", n, want, g.Raw, present)
			}
		case "str":
			want, err := stringOf(sc, n, val, v)
			if err != nil {
				return err.Error()
			}
			if want == "" && !present && n != refAttrAdType {
				continue // empty bytes: "" on the wire or no attribute at all decode alike
			}
			if !present || g.Type != "str" || g.Str != want {
				return fmt.Sprintf("%s: want string %q, wire has %s (present=%v)", n, want, g.Raw, present)
			}
		default:
			return "model value type " + val.T
		}
	}
	return ""
}

// ---------------------------------------------------------------------------
// stream behaviours

type gotEv struct {
	kind   int64
	key    []byte
	cursor []byte
	hasAd  bool
	name   string
	ver    int64
	note   string
}

// readEvents is the event reader a client of the package is made of: header
// message, DecodeHeader, and for a kind with HasAd the ad message. It returns
// the complete events read and the error that ended the stream (nil after
// Resync / GoingAway).
func readEvents(st *stream.Stream, stt *Stats) ([]gotEv, error) {
	var out []gotEv
	for {
		stt.RealCalls++
		ad, err := message.NewMessageFromStream(st).GetClassAd(bg)
		if err != nil {
			return out, err
		}
		k, key, cur, err := watch.DecodeHeader(ad)
		if err != nil {
			return out, err
		}
		e := gotEv{kind: int64(k), key: key, cursor: cur}
		if k.HasAd() {
			stt.RealCalls++
			body, err := message.NewMessageFromStream(st).GetClassAd(bg)
			if err != nil {
				return out, err
			}
			e.hasAd = true
			e.name, _ = body.EvaluateAttrString("Name")
			e.ver, _ = body.EvaluateAttrInt("Ver")
			e.note, _ = body.EvaluateAttrString("Note")
		}
		out = append(out, e)
		if k == watch.KindResync || k == watch.KindGoingAway {
			return out, nil
		}
	}
}

func cutInside(raw []byte, sel int) []byte {
	if len(raw) == 0 {
		return raw
	}
	switch {
	case sel == -1:
		return raw[:0]
	case sel == -2:
		return raw[:len(raw)-1]
	}
	return raw[:sel%len(raw)]
}

// client is the harness' fold of delivered events (view, persisted cursor).
type client struct {
	view      map[int]int
	persisted int
	inSnap    bool
}

func keyIndex(b []byte, nkeys int) int {
	for k := 1; k <= nkeys; k++ {
		if bytes.Equal(b, keyBytes(k)) {
			return k
		}
	}
	return 0
}

func (c *client) apply(e gotEv, nkeys int) error {
	cur, ok := cursorValue(e.cursor)
	if !ok {
		return fmt.Errorf("cursor %x is not one the server issued", e.cursor)
	}
	switch e.kind {
	case refKindUpsert:
		k := keyIndex(e.key, nkeys)
		if k == 0 {
			return fmt.Errorf("upsert of unknown key %q", e.key)
		}
		c.view[k] = int(e.ver)
	case refKindDelete:
		k := keyIndex(e.key, nkeys)
		if k == 0 {
			return fmt.Errorf("delete of unknown key %q", e.key)
		}
		c.view[k] = 0
	case refKindReset:
		c.view = map[int]int{}
		c.inSnap = true
		c.persisted = -1
		return nil
	case refKindSynced:
		c.inSnap = false
	case refKindResync, refKindGoingAway:
		return nil
	}
	if cur >= 0 {
		c.persisted = cur
	}
	return nil
}

func runStream(sc *Scenario, v Variant, stt *Stats) *Diff {
	nkeys := 0
	for _, c := range sc.Conns {
		if len(c.View) > nkeys {
			nkeys = len(c.View)
		}
	}
	cl := &client{view: map[int]int{}, persisted: -1}
	for ci, cn := range sc.Conns {
		cn := cn
		shape := connShape(cn)
		mk := func(inv, act, detail string) *Diff {
			return &Diff{Invariant: inv, Action: act, Shape: shape, Damage: cutShape(cn), Mode: modeOf(v), Detail: detail}
		}
		stt.Connections++
		if cl.persisted != cn.Req {
			return &Diff{Broken: true, Detail: fmt.Sprintf("connection %d: harness client persisted %d, model requests %d", ci+1, cl.persisted, cn.Req)}
		}

		// pass Q: the request carries the resume cursor both ways
		if d := guarded("Q", mk, func() *Diff {
			cur := cursorBytes(cn.Req, v)
			bc := wire.NewBufConn("req")
			st, err := newRealStream(bc, v)
			if err != nil {
				return &Diff{Broken: true, Detail: err.Error()}
			}
			stt.RealCalls += 2
			if err := putAd(st, watch.EncodeRequest("StartdAd", "", cur)); err != nil {
				return mk("RoundTrip", "EncodeRequest", "PutClassAd: "+err.Error())
			}
			ads, err := parseMessages(bc.TakeOut(), v)
			if err != nil || len(ads) != 1 {
				return mk("RoundTrip", "EncodeRequest", fmt.Sprintf("reference codec cannot read the request: %v", err))
			}
			g, ok := ads[0].get(refAttrCursor)
			want := ""
			if cur != nil {
				want = refB64(cur)
			}
			if !ok || g.Type != "str" || g.Str != want {
				return mk("RoundTrip", "EncodeRequest", fmt.Sprintf("resume cursor on the wire is %s, want %q", g.Raw, want))
			}
			if t, ok := ads[0].get(refAttrAdType); !ok || t.Str != "StartdAd" {
				return mk("RoundTrip", "EncodeRequest", "ad type missing on the wire")
			}
			items := []string{refAttrAdType + " = " + refQuote("StartdAd"), refAttrCursor + " = " + refQuote(want)}
			rc := wire.NewBufConn("req2")
			rc.Feed(newRefSender(v).message(refPayload(shuffle(items, v.Order), v.Enc)))
			rs, err := newRealStream(rc, v)
			if err != nil {
				return &Diff{Broken: true, Detail: err.Error()}
			}
			ad, err := message.NewMessageFromStream(rs).GetClassAd(bg)
			if err != nil {
				return mk("RoundTrip", "DecodeRequest", "GetClassAd of a reference-built request: "+err.Error())
			}
			t, c, gotCur, err := watch.DecodeRequest(ad)
			if err != nil || t != "StartdAd" || c != "" || !bytes.Equal(gotCur, cur) {
				return mk("RoundTrip", "DecodeRequest", fmt.Sprintf("got (%q, %q, %x, %v), want cursor %x", t, c, gotCur, err, cur))
			}
			return nil
		}); d != nil {
			if d.Pass == "" {
				d.Pass = "Q"
			}
			return d
		}

		// the server's messages, reference-built and real
		rs := newRefSender(v)
		var refRaw []byte
		for _, m := range cn.Wire {
			var items []string
			if m.T == "header" {
				items = refHeaderItems(int64(m.Ev.Kind), keyBytes(m.Ev.Key), cursorBytes(m.Ev.Cursor, v))
			} else {
				items = refAdItems(m.Ev)
			}
			b := rs.message(refPayload(shuffle(items, v.Order), v.Enc))
			if !m.Whole {
				b = cutInside(b, v.CutSel)
				stt.CutsInsideMsg++
			}
			refRaw = append(refRaw, b...)
		}

		var realRaw []byte
		if d := guarded("S", mk, func() *Diff {
			bc := wire.NewBufConn("srv")
			st, err := newRealStream(bc, v)
			if err != nil {
				return &Diff{Broken: true, Detail: err.Error()}
			}
			var bounds []int
			total := 0
			for _, m := range cn.Wire {
				stt.RealCalls += 2
				var ad *classad.ClassAd
				if m.T == "header" {
					ad = watch.EncodeHeader(watch.Kind(m.Ev.Kind), keyBytes(m.Ev.Key), cursorBytes(m.Ev.Cursor, v))
				} else {
					ad = realAd(m.Ev)
				}
				if err := putAd(st, ad); err != nil {
					return mk("RoundTrip", "EncodeHeader", "PutClassAd: "+err.Error())
				}
				b := bc.TakeOut()
				realRaw = append(realRaw, b...)
				total += len(b)
				bounds = append(bounds, total)
			}
			ads, err := parseMessages(realRaw, v)
			if err != nil || len(ads) != len(cn.Wire) {
				return mk("RoundTrip", "EncodeHeader", fmt.Sprintf("the reference codec reads %d messages from the real server's %d: %v", len(ads), len(cn.Wire), err))
			}
			for i, m := range cn.Wire {
				if msg := compareServerMsg(m, ads[i], v); msg != "" {
					return mk("RoundTrip", "EncodeHeader", fmt.Sprintf("message %d (%s): %s", i+1, m.T, msg))
				}
			}
			stt.WireEncodes += int64(len(ads))
			// cut where the model cuts
			if n := len(cn.Wire); n > 0 && !cn.Wire[n-1].Whole {
				start := 0
				if n > 1 {
					start = bounds[n-2]
				}
				realRaw = append(realRaw[:start:start], cutInside(realRaw[start:], v.CutSel)...)
			}
			return nil
		}); d != nil {
			if d.Pass == "" {
				d.Pass = "S"
			}
			return d
		}

		// passes R and C: real reader
		var lastGot []gotEv
		for _, p := range []struct {
			pass string
			raw  []byte
		}{{"R", refRaw}, {"C", realRaw}} {
			p := p
			if d := guarded(p.pass, mk, func() *Diff {
				bc := wire.NewBufConn("cli")
				bc.Feed(p.raw)
				st, err := newRealStream(bc, v)
				if err != nil {
					return &Diff{Broken: true, Detail: err.Error()}
				}
				got, rerr := readEvents(st, stt)
				if msg := compareDelivered(cn, got, rerr, v); msg != "" {
					inv := "DeliveredInOrder"
					if len(got) > len(cn.Delivered) {
						inv = "NoPartialEvent"
					}
					return mk(inv, "ReadEvents", msg)
				}
				stt.EventsCompared += int64(len(got))
				lastGot = got
				return nil
			}); d != nil {
				if d.Pass == "" {
					d.Pass = p.pass
				}
				return d
			}
		}

		// fold into the client and compare with the model's client
		for _, e := range lastGot {
			if err := cl.apply(e, nkeys); err != nil {
				return mk("ViewMatchesCursor", "Apply", err.Error())
			}
		}
		for k := 1; k <= nkeys; k++ {
			if cl.view[k] != cn.View[k-1] {
				return mk("ViewMatchesCursor", "Apply", fmt.Sprintf("after connection %d the view built from the real reader's events has key %d at version %d, the model %d", ci+1, k, cl.view[k], cn.View[k-1]))
			}
		}
		if cl.persisted != cn.Persisted {
			return mk("ViewMatchesCursor", "Apply", fmt.Sprintf("after connection %d the persisted cursor is %d, the model's %d", ci+1, cl.persisted, cn.Persisted))
		}
	}
	return nil
}

// connShape is the abstract class of a connection for the signature: full
// replay or resume, and which event kinds the server sent (as a set).
func connShape(cn Conn) string {
	s := "full"
	if cn.Req >= 0 {
		s = "resume"
	}
	var seen [6]bool
	for _, m := range cn.Wire {
		if m.T == "header" && m.Ev.Kind >= 0 && m.Ev.Kind < 6 {
			seen[m.Ev.Kind] = true
		}
	}
	kinds := ""
	for k, b := range seen {
		if b {
			kinds += fmt.Sprintf("%d", k)
		}
	}
	return s + "/kinds=" + kinds
}

func cutShape(cn Conn) string {
	n := len(cn.Wire)
	if n > 0 && !cn.Wire[n-1].Whole {
		return "cut-inside-" + cn.Wire[n-1].T
	}
	if n > 0 && cn.Wire[n-1].T == "header" && cn.Wire[n-1].Ev.Kind >= refKindResync {
		return "bye"
	}
	return "cut-between"
}

func compareServerMsg(m Msg, got *refAd, v Variant) string {
	if m.T == "ad" {
		n, _ := got.get("Name")
		ver, _ := got.get("Ver")
		note, _ := got.get("Note")
		if n.Str != adName(m.Ev.Key) || ver.Type != "int" || ver.Int != int64(m.Ev.Ver) || note.Str != adNote {
			return fmt.Sprintf("ad on the wire: Name=%s Ver=%s Note=%s", n.Raw, ver.Raw, note.Raw)
		}
		return ""
	}
	k, ok := got.get(refAttrKind)
	if !ok || k.Type != "int" || k.Int != int64(m.Ev.Kind) {
		return fmt.Sprintf("WatchKind on the wire is %q, want %d", k.Raw, m.Ev.Kind)
	}
	for _, f := range []struct {
		attr string
		want []byte
	}{{refAttrKey, keyBytes(m.Ev.Key)}, {refAttrCursor, cursorBytes(m.Ev.Cursor, v)}} {
		g, ok := got.get(f.attr)
		if f.want == nil {
			if ok && g.Str != "" {
				return fmt.Sprintf("%s = %s on the wire for an event without one", f.attr, g.Raw)
			}
			continue
		}
		if !ok || g.Type != "str" {
			return fmt.Sprintf("%s missing on the wire", f.attr)
		}
		b, err := refUnB64(g.Str)
		if err != nil || !bytes.Equal(b, f.want) {
			return fmt.Sprintf("%s on the wire is %s (%v), want base64 of %x", f.attr, g.Raw, err, f.want)
		}
	}
	return ""
}

func compareDelivered(cn Conn, got []gotEv, rerr error, v Variant) string {
	for i, g := range got {
		if i >= len(cn.Delivered) {
			return fmt.Sprintf("the reader delivered event %d (kind %d) which the model's client never gets (the connection ended before it was complete)", i+1, g.kind)
		}
		e := cn.Delivered[i]
		if g.kind != int64(e.Kind) {
			return fmt.Sprintf("event %d: kind %d, want %d", i+1, g.kind, e.Kind)
		}
		if !bytes.Equal(g.key, keyBytes(e.Key)) {
			return fmt.Sprintf("event %d: key %q, want %q", i+1, g.key, keyBytes(e.Key))
		}
		if !bytes.Equal(g.cursor, cursorBytes(e.Cursor, v)) {
			return fmt.Sprintf("event %d: cursor %x, want %x", i+1, g.cursor, cursorBytes(e.Cursor, v))
		}
		if e.Kind == refKindUpsert {
			if !g.hasAd || g.name != adName(e.Key) || g.ver != int64(e.Ver) || g.note != adNote {
				return fmt.Sprintf("event %d: upsert delivered with ad (present=%v Name=%q Ver=%d Note=%q), want Name=%q Ver=%d", i+1, g.hasAd, g.name, g.ver, g.note, adName(e.Key), e.Ver)
			}
		} else if g.hasAd {
			return fmt.Sprintf("event %d: kind %d delivered with an ad", i+1, g.kind)
		}
	}
	if len(got) < len(cn.Delivered) {
		return fmt.Sprintf("the reader delivered %d events and stopped (%v), the model delivers %d", len(got), rerr, len(cn.Delivered))
	}
	bye := len(cn.Delivered) > 0 && cn.Delivered[len(cn.Delivered)-1].Kind >= refKindResync
	if bye && rerr != nil {
		return "after Resync / GoingAway the reader reported an error: " + rerr.Error()
	}
	if !bye && rerr == nil {
		return "the connection ended and the reader reported no error"
	}
	return ""
}

// Run replays one behaviour. nil = the real code conforms.
func Run(sc *Scenario, v Variant, stt *Stats) *Diff {
	if watch.WatchAds != refWatchAds {
		return &Diff{Invariant: "RoundTrip", Action: "WatchAds", Shape: "command", Damage: "none", Mode: modeOf(v),
			Detail: fmt.Sprintf("command WatchAds is %d, documented 74000", watch.WatchAds)}
	}
	if watch.KindUpsert != refKindUpsert || watch.KindDelete != refKindDelete || watch.KindReset != refKindReset ||
		watch.KindSynced != refKindSynced || watch.KindResync != refKindResync || watch.KindGoingAway != refKindGoingAway {
		return &Diff{Invariant: "RoundTrip", Action: "Kind", Shape: "constants", Damage: "none", Mode: modeOf(v),
			Detail: "the Kind constants differ from the documented values Upsert=0 .. GoingAway=5"}
	}
	switch sc.Mode {
	case "codec":
		return runCodec(sc, v, stt)
	case "stream":
		return runStream(sc, v, stt)
	}
	return &Diff{Broken: true, Detail: "unknown scenario mode " + sc.Mode}
}
