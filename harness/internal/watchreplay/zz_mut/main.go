// temporary mutation-experiment runner (deleted after use)
package main

import (
	"bufio"
	"encoding/json"
	"fmt"
	"os"
	"sort"
	"sync"

	"cedarverif/internal/core"
	"cedarverif/internal/watchreplay"
)

func main() {
	var scs []*watchreplay.Scenario
	seen := map[string]bool{}
	for _, f := range os.Args[1:] {
		fh, err := os.Open(f)
		if err != nil {
			panic(err)
		}
		sc := bufio.NewScanner(fh)
		sc.Buffer(make([]byte, 1<<20), 1<<28)
		for sc.Scan() {
			if seen[sc.Text()] {
				continue
			}
			seen[sc.Text()] = true
			var w struct {
				Scn *watchreplay.Scenario `json:"scn"`
			}
			if err := json.Unmarshal(sc.Bytes(), &w); err != nil {
				panic(err)
			}
			scs = append(scs, w.Scn)
		}
		fh.Close()
	}
	var mu sync.Mutex
	sigs := map[string]int{}
	demo := map[string]string{}
	core.ParallelFor(len(scs), 8, func(i int) {
		sc := scs[i]
		for lm := 0; lm < 2; lm++ {
			v := watchreplay.Variant{Salt: 1, Enc: (i+lm)%2 == 1, Split: i%3 == 1, LenMod: (i + lm) % 3, Order: i % 3, CutSel: i*7919 + 3}
			var st watchreplay.Stats
			d := watchreplay.Run(sc, v, &st)
			if d == nil {
				continue
			}
			mu.Lock()
			k := fmt.Sprintf("%s/%s/%s broken=%v", d.Invariant, d.Action, d.Pass, d.Broken)
			sigs[k]++
			if _, ok := demo[k]; !ok {
				demo[k] = d.Error()
			}
			mu.Unlock()
		}
	})
	keys := []string{}
	for k := range sigs {
		keys = append(keys, k)
	}
	sort.Strings(keys)
	fmt.Printf("scenarios=%d failing-classes=%d\n", len(scs), len(keys))
	for _, k := range keys {
		d := demo[k]
		if len(d) > 300 {
			d = d[:300]
		}
		fmt.Printf("  %5d  %s\n         %s\n", sigs[k], k, d)
	}
}
