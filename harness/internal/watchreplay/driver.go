package watchreplay

import (
	"encoding/json"
	"os"
	"sync"

	"cedarverif/internal/core"
)

type Job struct {
	Sc *Scenario
	V  Variant
}

func Parse(c *core.Ctx, raws []json.RawMessage) []*Scenario {
	var out []*Scenario
	for _, r := range raws {
		var w struct {
			Scn *Scenario `json:"scn"`
		}
		if err := json.Unmarshal(r, &w); err != nil || w.Scn == nil {
			c.Broken("bad Watch scenario JSON: %v", err)
			return nil
		}
		out = append(out, w.Scn)
	}
	return out
}

func scenarioKey(sc *Scenario, v Variant) string {
	b, _ := json.Marshal(struct {
		S *Scenario
		V Variant
	}{sc, v})
	return string(b)
}

// nontrivial: a record that decodes, or a session in which an event is delivered.
func nontrivial(sc *Scenario) bool {
	if sc.Mode == "codec" {
		return true
	}
	for _, c := range sc.Conns {
		if len(c.Delivered) > 0 {
			return true
		}
	}
	return false
}

// ReplayAll runs the jobs on all cores, confirms every difference by an
// immediate second run and records failures.
func ReplayAll(c *core.Ctx, jobs []Job, stats *Stats) {
	var mu sync.Mutex
	conform := int64(0)
	core.ParallelFor(len(jobs), 16, func(i int) {
		j := jobs[i]
		var st Stats
		d := Run(j.Sc, j.V, &st)
		c.Eval(scenarioKey(j.Sc, j.V), nontrivial(j.Sc))
		mu.Lock()
		stats.Add(&st)
		if d == nil {
			conform++
		}
		mu.Unlock()
		if d == nil {
			return
		}
		if d.Broken {
			c.Broken("watchreplay: %s", d.Detail)
			return
		}
		var st2 Stats
		d2 := Run(j.Sc, j.V, &st2)
		if d2 == nil || d2.Broken || d2.Error() != d.Error() {
			c.Broken("non-reproducible difference: %v vs %v", d, d2)
			return
		}
		c.Fail(core.Failure{Signature: Signature(d), Detail: d.Error(),
			Scenario: map[string]any{"kind": "Watch", "scn": j.Sc, "variant": j.V}})
	})
	c.Add("traces_validated_against_impl", conform)
}

// ReplayFile re-runs one recorded failure (bin/check G03 quick --replay file).
func ReplayFile(c *core.Ctx) bool {
	if c.Replay == "" {
		return false
	}
	b, err := os.ReadFile(c.Replay)
	if err != nil {
		c.Broken("cannot read replay file: %v", err)
		return true
	}
	var rf struct {
		Scenario struct {
			Kind    string    `json:"kind"`
			Scn     *Scenario `json:"scn"`
			Variant Variant   `json:"variant"`
		} `json:"scenario"`
	}
	if err := json.Unmarshal(b, &rf); err != nil || rf.Scenario.Kind != "Watch" || rf.Scenario.Scn == nil {
		c.Broken("replay file %s is not a Watch scenario", c.Replay)
		return true
	}
	var st Stats
	ReplayAll(c, []Job{{rf.Scenario.Scn, rf.Scenario.Variant}}, &st)
	return true
}
