package watchreplay

// Independent reference codec for the watch protocol, written from the package
// documentation of watch/watch.go and the ClassAd wire description
// (refcodec/c08_classad.go): an event header / request is a ClassAd message
//
//	int64 count | count strings "Name = Value" | MyType string | TargetType string
//
// with Value an integer literal or a double-quoted string literal (\" and \\
// escaped); opaque bytes (keys, cursors) travel as standard padded base64, empty
// bytes as "". Nothing in this file calls the code under test; base64 is
// hand-written.

import (
	"errors"
	"fmt"
	"strconv"
	"strings"

	"cedarverif/internal/refcodec"
)

const b64abc = "ABCDEFGHIJKLMNOPQRSTUVWXYZabcdefghijklmnopqrstuvwxyz0123456789+/"

func refB64(b []byte) string {
	var sb strings.Builder
	for i := 0; i < len(b); i += 3 {
		var n uint32
		k := 0
		for j := 0; j < 3; j++ {
			n <<= 8
			if i+j < len(b) {
				n |= uint32(b[i+j])
				k++
			}
		}
		sb.WriteByte(b64abc[n>>18&63])
		sb.WriteByte(b64abc[n>>12&63])
		if k > 1 {
			sb.WriteByte(b64abc[n>>6&63])
		} else {
			sb.WriteByte('=')
		}
		if k > 2 {
			sb.WriteByte(b64abc[n&63])
		} else {
			sb.WriteByte('=')
		}
	}
	return sb.String()
}

func refUnB64(s string) ([]byte, error) {
	if len(s)%4 != 0 {
		return nil, errors.New("base64 length not a multiple of 4")
	}
	var out []byte
	for i := 0; i < len(s); i += 4 {
		var n uint32
		pad := 0
		for j := 0; j < 4; j++ {
			c := s[i+j]
			n <<= 6
			if c == '=' {
				if i+4 != len(s) || j < 2 {
					return nil, errors.New("misplaced padding")
				}
				pad++
				continue
			}
			if pad > 0 {
				return nil, errors.New("data after padding")
			}
			k := strings.IndexByte(b64abc, c)
			if k < 0 {
				return nil, fmt.Errorf("illegal base64 character %q", c)
			}
			n |= uint32(k)
		}
		out = append(out, byte(n>>16))
		if pad < 2 {
			out = append(out, byte(n>>8))
		}
		if pad < 1 {
			out = append(out, byte(n))
		}
	}
	return out, nil
}

// refQuote renders a ClassAd string literal.
func refQuote(s string) string {
	var sb strings.Builder
	sb.WriteByte('"')
	for i := 0; i < len(s); i++ {
		if s[i] == '"' || s[i] == '\\' {
			sb.WriteByte('\\')
		}
		sb.WriteByte(s[i])
	}
	sb.WriteByte('"')
	return sb.String()
}

func refUnquote(lit string) (string, error) {
	if len(lit) < 2 || lit[0] != '"' || lit[len(lit)-1] != '"' {
		return "", fmt.Errorf("not a string literal: %s", lit)
	}
	body := lit[1 : len(lit)-1]
	var sb strings.Builder
	for i := 0; i < len(body); i++ {
		c := body[i]
		if c == '"' {
			return "", fmt.Errorf("unescaped quote inside %s", lit)
		}
		if c == '\\' {
			if i+1 >= len(body) {
				return "", fmt.Errorf("dangling backslash in %s", lit)
			}
			i++
			c = body[i]
		}
		sb.WriteByte(c)
	}
	return sb.String(), nil
}

// refValue is a typed attribute value as the reference decoder sees it.
type refValue struct {
	Type string // "int" | "str" | "other"
	Int  int64
	Str  string
	Raw  string
}

// refAd is an attribute list in wire order.
type refAd struct {
	Names  []string
	Values map[string]refValue
}

func (a *refAd) get(name string) (refValue, bool) {
	for k, v := range a.Values {
		if strings.EqualFold(k, name) {
			return v, true
		}
	}
	return refValue{}, false
}

// refPayload renders the payload of one ClassAd message from "Name = Value"
// items (MyType and TargetType empty).
func refPayload(items []string, lenPrefixed bool) []byte {
	b := refcodec.C08AdInt(int64(len(items)))
	for _, it := range items {
		b = append(b, refcodec.C08AdString(it, lenPrefixed)...)
	}
	b = append(b, refcodec.C08AdString("", lenPrefixed)...)
	b = append(b, refcodec.C08AdString("", lenPrefixed)...)
	return b
}

// refParseAd parses the frames of one message into an attribute list.
func refParseAd(frames []refcodec.C08ClearFrame) (*refAd, error) {
	w, err := refcodec.C08DecodeAd(frames)
	if err != nil {
		return nil, err
	}
	if len(w.Tail) != 2 {
		return nil, fmt.Errorf("%d strings after the expressions, expected MyType and TargetType", len(w.Tail))
	}
	ad := &refAd{Values: map[string]refValue{}}
	for _, it := range w.Items {
		if it.Secret {
			return nil, errors.New("secret item in a watch ad")
		}
		i := strings.Index(it.Text, "=")
		if i < 0 {
			return nil, fmt.Errorf("item without '=': %q", it.Text)
		}
		name := strings.TrimSpace(it.Text[:i])
		val := strings.TrimSpace(it.Text[i+1:])
		v := refValue{Type: "other", Raw: val}
		if n, err := strconv.ParseInt(val, 10, 64); err == nil {
			v = refValue{Type: "int", Int: n, Raw: val}
		} else if strings.HasPrefix(val, "\"") {
			s, err := refUnquote(val)
			if err != nil {
				return nil, err
			}
			v = refValue{Type: "str", Str: s, Raw: val}
		}
		if _, dup := ad.Values[name]; dup {
			return nil, fmt.Errorf("attribute %s twice", name)
		}
		ad.Names = append(ad.Names, name)
		ad.Values[name] = v
	}
	return ad, nil
}

// documented attribute names and kinds (written here from the documentation,
// not imported from the package under test)
const (
	refAttrAdType     = "WatchAdType"
	refAttrConstraint = "WatchConstraint"
	refAttrKind       = "WatchKind"
	refAttrKey        = "WatchKey"
	refAttrCursor     = "WatchCursor"

	refKindUpsert    = 0
	refKindDelete    = 1
	refKindReset     = 2
	refKindSynced    = 3
	refKindResync    = 4
	refKindGoingAway = 5

	refWatchAds = 74000
)

// refHeaderItems renders an event header the way the documentation describes.
func refHeaderItems(kind int64, key, cursor []byte) []string {
	items := []string{fmt.Sprintf("%s = %d", refAttrKind, kind)}
	if key != nil {
		items = append(items, fmt.Sprintf("%s = %s", refAttrKey, refQuote(refB64(key))))
	}
	if cursor != nil {
		items = append(items, fmt.Sprintf("%s = %s", refAttrCursor, refQuote(refB64(cursor))))
	}
	return items
}
