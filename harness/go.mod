module cedarverif

go 1.25.0

require (
	github.com/PelicanPlatform/classad v0.4.0
	github.com/bbockelm/cedar v0.0.0
	github.com/golang-jwt/jwt/v5 v5.3.0
	golang.org/x/crypto v0.53.0
	pgregory.net/rapid v1.3.0
)

replace github.com/bbockelm/cedar => /repo
