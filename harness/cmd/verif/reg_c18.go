//go:build c18 || allprops

package main

import _ "cedarverif/internal/props/c18"
