//go:build g03 || allprops

package main

import _ "cedarverif/internal/props/g03"
