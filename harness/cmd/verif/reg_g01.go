//go:build g01 || allprops

package main

import _ "cedarverif/internal/props/g01"
