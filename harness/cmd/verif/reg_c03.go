//go:build c03 || allprops

package main

import _ "cedarverif/internal/props/c03"
