//go:build c07 || allprops

package main

import _ "cedarverif/internal/props/c07"
