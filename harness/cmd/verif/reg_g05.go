//go:build g05 || allprops

package main

import _ "cedarverif/internal/props/g05"
