//go:build c20 || allprops

package main

import _ "cedarverif/internal/props/c20"
