//go:build c04 || allprops

package main

import _ "cedarverif/internal/props/c04"
