//go:build c16 || allprops

package main

import _ "cedarverif/internal/props/c16"
