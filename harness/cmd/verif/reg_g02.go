//go:build g02 || allprops

package main

import _ "cedarverif/internal/props/g02"
