//go:build c17 || allprops

package main

import _ "cedarverif/internal/props/c17"
