//go:build c02 || allprops

package main

import _ "cedarverif/internal/props/c02"
