//go:build g06 || allprops

package main

import _ "cedarverif/internal/props/g06"
