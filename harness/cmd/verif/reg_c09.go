//go:build c09 || allprops

package main

import _ "cedarverif/internal/props/c09"
