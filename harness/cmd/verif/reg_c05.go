//go:build c05 || allprops

package main

import _ "cedarverif/internal/props/c05"
