//go:build g04 || allprops

package main

import _ "cedarverif/internal/props/g04"
