//go:build c11 || allprops

package main

import _ "cedarverif/internal/props/c11"
