//go:build g07 || allprops

package main

import _ "cedarverif/internal/props/g07"
