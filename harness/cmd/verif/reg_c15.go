//go:build c15 || allprops

package main

import _ "cedarverif/internal/props/c15"
