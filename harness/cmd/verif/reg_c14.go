//go:build c14 || allprops

package main

import _ "cedarverif/internal/props/c14"
