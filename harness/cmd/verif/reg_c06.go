//go:build c06 || allprops

package main

import _ "cedarverif/internal/props/c06"
