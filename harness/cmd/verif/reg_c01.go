//go:build c01 || allprops

package main

import _ "cedarverif/internal/props/c01"
