//go:build c13 || allprops

package main

import _ "cedarverif/internal/props/c13"
