//go:build c12 || allprops

package main

import _ "cedarverif/internal/props/c12"
