//go:build c08 || allprops

package main

import _ "cedarverif/internal/props/c08"
