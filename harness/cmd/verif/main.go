// Command verif runs one property check: TLC on the specification, replay of
// the generated behaviours into the real cedar code, trace validation, and
// evidence output. See /verif/DESIGN.md.
package main

import (
	"flag"
	"fmt"
	"os"
	"strconv"
	"strings"

	"cedarverif/internal/core"
	"cedarverif/internal/ltrace"
	"cedarverif/internal/otrace"
)

// otraceCmd validates a directory of hook traces against HandshakeOutcome_Trace
// (diagnostic tool: verif otrace <dir>).
func otraceCmd(dir string) {
	tmp, _ := os.MkdirTemp("", "cedarverif-")
	defer os.RemoveAll(tmp)
	c := core.NewCtx("otrace", "quick", 1, "/verif", tmp, "x")
	groups, err := otrace.LoadDir(dir, false)
	if err != nil {
		fmt.Println(err)
		os.Exit(2)
	}
	fmt.Printf("%d groups\n", len(groups))
	otrace.Validate(c, groups, "dir", nil)
	os.Exit(c.Finish())
}

// ltraceCmd validates a directory of hook traces against ConnLifecycle_Trace.
func ltraceCmd(dir string) {
	tmp, _ := os.MkdirTemp("", "cedarverif-")
	defer os.RemoveAll(tmp)
	c := core.NewCtx("ltrace", "quick", 1, "/verif", tmp, "x")
	groups, err := ltrace.LoadDir(dir)
	if err != nil {
		fmt.Println(err)
		os.Exit(2)
	}
	fmt.Printf("%d life-cycle groups\n", len(groups))
	ltrace.Validate(c, groups, "dir", nil)
	os.Exit(c.Finish())
}

func main() {
	if len(os.Args) == 3 && os.Args[1] == "otrace" {
		otraceCmd(os.Args[2])
	}
	if len(os.Args) == 3 && os.Args[1] == "ltrace" {
		ltraceCmd(os.Args[2])
	}
	if len(os.Args) < 3 || os.Args[1] != "check" {
		fmt.Fprintf(os.Stderr, "usage: verif check <id> [--tier quick|thorough] [--replay file]\nknown ids: %v\n", core.IDs())
		os.Exit(core.ExitBroken)
	}
	id := os.Args[2]
	fs := flag.NewFlagSet("check", flag.ExitOnError)
	tier := fs.String("tier", "quick", "quick|thorough")
	replay := fs.String("replay", "", "replay file")
	verifDir := fs.String("verif", "/verif", "verif dir")
	tmp := fs.String("tmp", "", "scratch dir")
	_ = fs.Parse(os.Args[3:])
	if t := os.Getenv("VERIF_TIER"); t != "" && *tier == "" {
		*tier = t
	}
	seed := int64(1)
	if s := os.Getenv("VERIF_SEED"); s != "" {
		if v, err := strconv.ParseInt(s, 10, 64); err == nil {
			seed = v
		}
	}
	if *tmp == "" {
		d, err := os.MkdirTemp("", "cedarverif-")
		if err != nil {
			fmt.Fprintln(os.Stderr, err)
			os.Exit(core.ExitBroken)
		}
		defer os.RemoveAll(d)
		*tmp = d
	}
	run := core.Lookup(id)
	if run == nil {
		fmt.Fprintf(os.Stderr, "unknown property %q; known: %v\n", id, core.IDs())
		os.Exit(core.ExitBroken)
	}
	c := core.NewCtx(id, *tier, seed, *verifDir, *tmp, *replay)
	func() {
		defer func() {
			if r := recover(); r != nil {
				c.Broken("harness panic: %v", r)
			}
		}()
		run(c)
	}()
	code := c.Finish()
	// exit at once: the verdict is out, and a goroutine a replay left behind must not get the
	// chance to die on the scratch directory disappearing under it (seen once: "OK ..." followed
	// by exit status 2). bin/check removes the scratch directory itself.
	if os.Getenv("CEDARVERIF_KEEP_TMP") == "" && !strings.HasPrefix(*tmp, os.TempDir()+"/cedarverif.") {
		os.RemoveAll(*tmp)
	}
	os.Exit(code)
}
