//go:build c19 || allprops

package main

import _ "cedarverif/internal/props/c19"
