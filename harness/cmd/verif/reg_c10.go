//go:build c10 || allprops

package main

import _ "cedarverif/internal/props/c10"
