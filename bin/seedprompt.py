#!/usr/bin/env python3
"""bin/seedprompt.py <ID>  -> prints the prompt given to a fresh seeding sub-agent (property text only)."""
import json,sys
props={json.loads(l)['id']:json.loads(l) for l in open('/verif/properties.jsonl')}
T=open('/verif/bin/prompts/seed_template.txt').read()
p=props[sys.argv[1]]
print(T.format(ID=p['id'],TITLE=p['title'],STATEMENT=p['statement'],QUANT=p['quantifier']['text'],FILES=', '.join(p['anchors']['files'])))
