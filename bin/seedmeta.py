#!/usr/bin/env python3
"""Writes seeded/<ID-x>/meta.json from the seeder's own meta (meta.agent.json), the coordinator's
confirmation (verify.json, written by bin/seedverify) and the detection table below."""
import json, os, glob
V = os.path.dirname(os.path.dirname(os.path.abspath(__file__)))
# detection table: seed -> (caught by quick check as first delivered?, how it is caught now, what was strengthened)
DET = {
 "C02-a": (True,  "C02 quick: adv=inject lenClass=0 class=accepted (forged empty frame at position 1)", ""),
 "C02-b": (True,  "C02 quick: adv=drop class=accepted under receive API GetRemainingBytes", ""),
 "C12-a": (True,  "C12 quick: StreamEndpoint trace rejected (counter wrapped to 0 after the refused send); since the retry-after-refusal script also by replay (send after refusal succeeds)", "SecureChannel: a refused sender may try again and must be refused again (script 7)"),
 "C12-b": (False, "C12 quick: class=rejected / format on the first protected frame after an all-empty cleartext prefix", "cleartext prefix frames of every shape (all empty, empty-then-data, large) via the size plans"),
 "C15-a": (True,  "C15 quick: class=format (reference decryptor cannot open a frame of the twice-imported stream) and StreamEndpoint trace (key fingerprint changes after Imported)", "chains of hand-offs of one side (Gen_C15_chain*)"),
 "C15-b": (False, "C15 quick: class=exported-dirty exp=refused on a keyed, non-encrypting stream", "Gen_C15 now covers both stream states and the secrets script (script 4)"),
 "C03-a": (False, "C03 quick: deviation=SelectSeveralBits invariant=RequiredAuthRan (client runs unlisted CLAIMTOBE)", "scripted server cooperates with whatever exchange the client starts after a multi-bit selection and always includes the lowest runnable bit"),
 "C03-b": (True,  "C03 quick: role=server deviation=OmitECDH/RandomECDH invariant=RequiredEncOn", ""),
 "C08-a": (True,  "C08 quick: action=Decode got=real shape=operator expression (-Infinity)", ""),
 "C08-b": (True,  "C08 quick: action=Receive reader=skip cut=split st=enc what=consumption", ""),
 "C09-a": (True,  "C09 quick: action=Put outcome=plain attr=reserved-prefix/fixed ver=atleast include=0", ""),
 "C09-b": (True,  "C09 quick: action=Put outcome=plain attr=fixed-private-name st=keyedClear ver=below include=1", ""),
 "C11-a": (True,  "C11 quick: dev=claim_all role=server identity=not-the-subject (via insider)", ""),
 "C11-b": (True,  "C11 quick: dev=mac_long / mac_empty / mac_trunc role=client and server", ""),
 "C17-a": (True,  "C17 quick: check=linearizability (history with a lost store rejected by TLC); deterministic since the gated schedules (VerifGate hook)", "the random histories hit the few-instruction window only sometimes (missed once under machine load): gated schedules hold the lookup at its expiry check while the conflicting Store runs"),
 "C17-b": (True,  "C17 quick: race detector (sendMessageWithEnd vs ReceiveFrameWithEnd on frameBuf), duplex phase", ""),
 "C19-a": (True,  "C19 quick: shape=enc_recv check=returns/closed timing=in_step_then_*", ""),
 "C19-b": (False, "C19 quick: shape=hs_ssl check=returns (during_stall / between_steps), both roles", "SSL handshake shape with run-time generated CA/server certificate"),
 "C07-a": (False, "C07 quick: inv=ResumeOnlySameTriple addr=other-addr addrShape=sock|ccbid|param", "address-concretisation variant: the two model servers also realised as one host:port differing only in sinful parameters"),
 "C07-b": (True,  "C07 quick: inv=FailureDropsEverything obs=lookup/wire", ""),
 "C06-a": (False, "C06 quick: action=Resume variant=keyless inv=ResumeOnlyKeyed placement=fallback", "cache-placement variant (own / global-cache fallback / global only)"),
 "C06-b": (True,  "C06 quick: action=ReplayRecorded dir=c2s wantReply=true inv=NoKeyNoAcceptedByte", ""),
 "C16-a": (True,  "C16 quick: action=Mint field=key (key is not HKDF of the whole secret)", ""),
 "C16-b": (False, "C16 quick: action=Import field=lease (and after-expiry after a connection)", "SameSession compared again after each connection incl. expiry (exact) and lease; Bug MinterLeaseRenews"),
 "C05-a": (True,  "C05 quick: why=inadequate-session lacks=authz (stale authorization on a resumed session)", ""),
 "C05-b": (True,  "C05 quick: why=inadequate-session lacks=auth via=resumed reported_auth=true", ""),
}
extra = os.path.join(V, "bin", "seedmeta_extra.py")
if os.path.exists(extra):
    exec(open(extra).read())
for d in sorted(glob.glob(os.path.join(V, "seeded", "*-*"))):
    name = os.path.basename(d)
    agent = {}
    try: agent = json.load(open(os.path.join(d, "meta.agent.json")))
    except Exception: pass
    ver = {}
    try: ver = json.load(open(os.path.join(d, "verify.json")))
    except Exception: pass
    det = DET.get(name)
    meta = {
      "property": name.split("-")[0],
      "written_by": "fresh sub-agent given only the property text (bin/seedprompt.py) and its own scratch worktree of /repo",
      "summary": agent.get("summary", ""),
      "needs_to_manifest": agent.get("needs", ""),
      "files": agent.get("files", []),
      "confirmed_by_coordinator": {
         "command": "bin/seedverify seeded/%s (scratch worktree of /repo: apply patch.diff, go build, full suite, demo with / without the change)" % name,
         "builds": ver.get("build"), "existing_suite_with_change": ver.get("suite_with_change"),
         "demo_with_change": ver.get("demo_with_change"), "demo_without_change": ver.get("demo_without_change"),
         "repo_head": ver.get("repo_head"), "demo_path": ver.get("demo_path")},
      "check_run": "VERIF_REPO=<scratch worktree with patch.diff applied> bin/check %s quick" % name.split("-")[0],
    }
    if det:
        meta["caught_when_first_delivered"] = det[0]
        meta["caught_now_by"] = det[1]
        if det[2]: meta["check_strengthened"] = det[2]
    json.dump(meta, open(os.path.join(d, "meta.json"), "w"), indent=1)
rows = ["# Seeded breaking changes (written by fresh sub-agents from the property text only)", "",
        "Each directory holds `patch.diff` (the source change), `demo_test.go.txt` (a test that fails with the change and passes without), `meta.json` and `verify.json` (the coordinator's confirmation: builds, existing suite passes with the change, demo fails with / passes without).", "",
        "| seed | caught when first delivered | caught now by | what was strengthened |", "|---|---|---|---|"]
for name in sorted(DET):
    d = DET[name]
    rows.append("| %s | %s | %s | %s |" % (name, "yes" if d[0] else "no", d[1], d[2] or "—"))
open(os.path.join(V, "seeded", "README.md"), "w").write("\n".join(rows) + "\n")
print("wrote", len(glob.glob(os.path.join(V, "seeded", "*-*"))), "meta.json files")
