#!/usr/bin/env python3
"""bin/seedprompt3.py <ID> [letter] -> prompt for a later-round seeding sub-agent: ONE change (default letter e),
told in one line each what the earlier seeders' changes did so that it picks a different site / clause / kind."""
import json,sys,glob,os
props={json.loads(l)['id']:json.loads(l) for l in open('/verif/properties.jsonl')}
ID=sys.argv[1]; L=sys.argv[2] if len(sys.argv)>2 else 'e'
p=props[ID]
prev=[]
for d in sorted(glob.glob('/verif/seeded/%s-*'%ID)):
    try:
        m=json.load(open(d+'/meta.agent.json'))
        prev.append("  - (%s) %s"%(', '.join(m.get('files',[])[:3]), m.get('summary','')[:420]))
    except Exception: pass
T=open('/verif/bin/prompts/seed_template3.txt').read()
print(T.format(ID=ID,L=L,TITLE=p['title'],STATEMENT=p['statement'],QUANT=p['quantifier']['text'],FILES=', '.join(p['anchors']['files']),PREV='\n'.join(prev)))
