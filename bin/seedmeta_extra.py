DET.update({
 "C01-a": (True,  "C01 quick: invariant=DeliveredIsPrefixOfSent class=content (small write then large write reordered)", ""),
 "C01-b": (False, "pending: typed receiver must keep GetBytes slices until the whole message was read", "typed receiver keeps every returned slice and compares after the whole behaviour (follow-up)"),
 "C14-a": (True,  "C14 quick: invariant=Layout type=int (uint32 >= 2^31 sign-extended)", ""),
 "C14-b": (False, "pending: long messages re-cut into equal-size frames", "long value sequences re-framed at every frame size / cut (follow-up)"),
 "C04-a": (True,  "C04 quick: inv=EncOnImpliesSameTranscripts class=digest-coverage (first protected frame does not open under the relay's own digests)", ""),
 "C04-b": (True,  "C04 quick: act=InsertFrame inv=TamperedMeansNoAppData (empty frame inserted into the cleartext handshake goes unnoticed)", ""),
 "C10-a": (True,  "C10 quick: inv=FollowsTable class=auth-must-run / FailsExactlyWhen (unimplemented method ahead of a usable one)", ""),
 "C10-b": (True,  "C10 quick: inv=FailsExactlyWhen class=one-sided (server NEVER / client lenient: client keys, server does not)", ""),
})
DET.update({
 "C01-b": (False, "C01 quick: action=GetBytes class=changed-after-later-read (typed receiver keeps every returned slice)", "typed receiver keeps every returned slice and compares after the whole behaviour; Gen_C01_typed_multi"),
 "C14-b": (False, "C14 quick: invariant=CutIndependence class=long:equal|single|random", "long value sequences (8..300 values) re-framed at every frame size / single cut / seeded multi-cuts"),
 "C18-b": (False, "C18 quick: check=left_behind remover=nobody verdict=accept", "environment choice: the server does not remove the directory (relay answers the verdict itself)"),
 "C13-a": (False, "C13 quick: kind=cap / no-error class=accum:secrets(*16)", "accumulating items of 0.6 x cap (2..4 units and x16 repeats) for the capped readers"),
 # round 2
 "C02-c": (False, "C02 quick: class=format (sender drops to plaintext after a secret on an encrypting stream) / forged frame accepted after GetSecret", "SecureChannel: PutSecret / GetSecret also on encrypting streams (receive API fixed by the protocol via sentKind)"),
 "C02-d": (True,  "C02 quick: class=rejected (message with an empty final frame not ended under the Message API)", ""),
 "C05-c": (False, "pending follow-up: integrity-only command policy + client without cipher + follow-on", "command with Integrity=REQUIRED only; client kind noCipher"),
 "C05-d": (True,  "C05 quick: why=raw-handler-via-auth-path via=followon", ""),
 "C10-c": (False, "C17 quick: race writer=security.NewAuthenticator + SharedManagerHandshakes handshake_error (SecurityManager phase)", "C17: overlapping handshakes through one shared SecurityManager on each side"),
 "C10-d": (False, "pending follow-up: alias list shapes (TOKEN and IDTOKENS in one list)", "list shapes with both concrete members of method B"),
 "C09-c": (True,  "C09 quick: outcome=plain include=1 noPrivate=1 wl=priv", ""),
 "C09-d": (True,  "C09 quick: outcome=plain attr=reserved-prefix st=keyedClear include=1", ""),
 "C08-c": (False, "C08 quick: action=Put what=count serverTime=true", "ServerTime option x ad already carrying ServerTime; invariant CountIsItems"),
 "C08-d": (False, "C08 quick: sender=PutClassAdRawBytes what=caller's buffer modified", "raw-bytes path renders all expressions into one shared scratch buffer (cap > len) and checks it afterwards"),
 "C04-c": (False, "pending follow-up: OPTIONAL/OPTIONAL encryption policies for the authenticating shapes", "policy variants where encryption ends up on without being required"),
 "C04-d": (False, "pending follow-up: header byte 0 substitutes 0..11, 255", "end-flag substitute values"),
 "C07-c": (False, "pending follow-up: broken exchange realised as stall + client deadline", "second realisation of BreakNext"),
 "C07-d": (False, "pending follow-up: inherited / claim-imported session origin", "session-origin variant"),
 "C06-c": (False, "pending follow-up: duration > lease, expiry read back after a real renewal", "Renew binding"),
 "C06-d": (False, "pending follow-up: Establish(keyed, not authenticated) with a common method listed", "unauthenticated keyed sessions"),
 "C01-c": (True,  "C01 quick: invariant=AcceptedNeverRejected (GetRemaining runs past an empty final frame)", ""),
 "C01-d": (False, "pending follow-up: PutStringBytes at exact multiples of the chunk size", "third typed sender kind"),
 "C03-c": (False, "C03 quick: deviation=AnswerAuthNo answerForm=Omitted|Lowercase|Bool|Garbage invariant=RequiredAuthRan", "the negative answer is a class of renderings"),
 "C03-d": (False, "C03 quick: mode=resumed establishment=OmitECDH/preferred invariant=ReportedEncTruthful / RequiredEncOn", "resumed scenarios whose establishing handshake ran against a deviating peer, cross-level resumption"),
 "C15-c": (True,  "C15 quick: class=rejected after a hand-off with asymmetric frame counts", ""),
 "C15-d": (True,  "C15 quick: action=HandoffBad fault=trunc class=bad-blob-trunc", ""),
 "C14-c": (True,  "C14 quick: invariant=RoundTrip type=double (MaxFloat64: 'invalid double exponent: 1024')", ""),
 "C14-d": (False, "pending follow-up: multi-frame strings on encrypted streams compared byte for byte", "long-string layout + round trip in encrypted mode"),
 "C16-c": (True,  "C16 quick: action=Mint addr=ipv6 field=parse", ""),
 "C16-d": (True,  "C16 quick: action=Mint field=policy-rerender", ""),
 "C18-c": (True,  "C18 quick: check=created_for_invalid_path path=symlinked_parent / nested", ""),
 "C18-d": (True,  "C18 quick: check=server_accepted object=file role=server", ""),
 "C13-c": (True,  "C13 quick: ep=ParseClaimIDStrict kind=panic class=rbr hash lbr", ""),
 "C13-d": (True,  "C13 quick: ep=SkipClassAdRaw kind=spin class=count=i32max", ""),
 "C20-c": (True,  "C20 quick: what=returned_otherId (connect id shared across broker attempts)", ""),
})
DET.update({
 "C10-d": (False, "C10 quick: inv=BothAgree class=method alias=client-lists-both", "alias sweep: one end lists both spellings of the token method (found a residual genuine defect, fixed by 6278097)"),
 "C04-c": (False, "C04 quick: class=digest-coverage-s2c (OPTIONAL/OPTIONAL) and app-accepted-client after Split", "policy variants OPTIONAL/OPTIONAL and PREFERRED/OPTIONAL for the authenticating shapes"),
 "C04-d": (False, "C04 quick: act=Modify(header) byte 0 set to 2..10 class=app-accepted-client", "header byte 0 takes every value 0..11 and 255"),
 "C07-c": (False, "C07 quick: inv=FailureDropsEverything break=stall", "broken exchange also realised as server stall + client context cancel"),
 "C07-d": (False, "C07 quick: origin=inherited inv=NoRouteToDeadSession / FailureDropsEverything", "session-origin variant (SetInherited)"),
 "C06-c": (False, "C06 quick: inv=DeadStaysDead obs=expiry (real Expiration() read back after every step)", "Duration > Lease, clock sync by reading the real expiry back; deep single-session generator"),
 "C06-d": (False, "C06 quick: inv=ResumedStateEqualsOriginal (server Authentication false -> true on resume)", "unauthenticated keyed sessions established with a common method listed"),
 "C01-d": (False, "C01 quick: invariant=TypedLayerTotal class=pending-frame (PutStringBytes at k x Max)", "third typed sender kind stringbytes at exact chunk multiples"),
 "C14-d": (False, "C14 quick: invariant=Layout type=string mode=encrypted class=bytes:len>=Max", "strings > 1 MiB in the quick tier, layout byte for byte + real-frames round trip"),
 "C20-d": (True,  "C20 quick: invariant=OthersClosed mode=nested what=open_broker_connection", ""),
 "C12-c": (True,  "C12 quick: class=rejected / format (digests keep running after key install)", ""),
 "C12-d": (True,  "C12 quick: class=rejected (empty first protected frame refused)", ""),
 "C17-c": (False, "pending follow-up: server with a SecurityConfigForCommand hook returning a shared object", ""),
 "C17-d": (False, "pending follow-up: ccb listener heartbeat vs result writes", ""),
 "C11-c": (True,  "C11 quick: dev=iat_old role=server (max-age check disabled)", ""),
 "C11-d": (True,  "C11 quick: dev=v_srv_otherkey role=verify (signature cache ignores the key)", ""),
 "C19-c": (False, "pending follow-up: stream whose connection was swapped with SetConnection", ""),
 "C19-d": (True,  "C19 quick: check=closed timing=between_steps shape=hs_claimtobe", ""),
})

DET.update({
 "C05-c": (False, "C05 quick: via=followon lacks=enc client=noCipher (integrity-only command on a plaintext kept-alive session)", "command with Integrity=REQUIRED only; client kind noCipher; Bug IntegrityForgotten"),
})

DET.update({
 "C17-c": (False, "C17 quick: race writer=security.(*Authenticator).ServerHandshakeWithMessage + SharedPerCommandPolicyHandshakes failures", "server with a SecurityConfigForCommand hook returning one shared object; phase of overlapping fresh handshakes"),
 "C17-d": (False, "C17 THOROUGH only: race sendMessageWithEnd|writeWithContext etc. on the CCB listener's broker stream (the public API enforces a 30 s minimum heartbeat)", "thorough-tier ccb listener phase (real listener, scripted broker over an encrypted session, one heartbeat tick)"),
 "C19-c": (False, "C19 quick: shapes *_setconn check=returns (during_stall)", "plain shapes with the connection swapped in by SetConnection"),
})

# round 3 (letter e, one seed per property; prompts: bin/seedprompt3.py)
DET.update({
 "C01-e": (False, "C01 quick: invariant=DeliveredIsPrefixOfSent class=content (stale draft bytes precede the restarted message)", "Framing.tla action Abandon (a draft of which nothing has left is given up, StartMessage / a new Message starts the message over), Gen_C01_abandon.cfg, SelfTest RestartKeepsBuffer"),
 "C02-e": (True,  "C02 quick: class=format (reference decryptor cannot open the second protected frame: counter not in the nonce)", ""),
 "C03-e": (True,  "C03 quick: deviation=SelectZero invariant=ReportedAuthTruthful role=server", ""),
 "C07-e": (True,  "C07 quick: inv=ResumeOnlySameTriple cmd=invalid-cmd (command map routes an undeclared command to the session)", ""),
 "C09-e": (True,  "C09 quick: attr=fixed-private-name outcome=plain (ChildClaimIds in every spelling)", ""),
 "C10-e": (True,  "C10 quick: inv=DenialIsExplicit class=bare-close cenc=REQUIRED senc=NEVER", ""),
 "C12-e": (True,  "C12 quick: action=RecvStep class=rejected after a hand-off with asymmetric traffic (decrypt counter slot carries the encrypt counter)", ""),
 "C13-e": (True,  "C13 quick: kind=panic class=frame:len=one mode=enc (short first protected frame)", ""),
 "C14-e": (True,  "C14 quick: invariant=Layout type=string mode=encrypted class=bytes:len>=Max", ""),
 "C15-e": (True,  "C15 quick: action=HandoffBad class=bad-blob-version (version 0 accepted)", ""),
 "C19-e": (True,  "C19 quick: check=error shape=recv_frame timing=in_step_* (error no longer wraps the context's error)", ""),
})

DET.update({
 "C04-e": (False, "C04 quick: inv=TamperedMeansNoAppData class=app-accepted-client shape=resumed-noreply act=Modify frame=c2s:rreq (+ prekeyed-10/01, digest-coverage on the untouched run)", "Handshake.tla shapes resume1 (resumption without a reply) and pre00/pre10/pre01/pre11 (pre-keyed ends with 0/1 cleartext frame per direction): the all-zero placeholder is per direction; scripted one-way resumption client against the real ServerHandshake; Bug ZeroBothWhenOneEmpty"),
 "C05-e": (False, "C05 quick: action=Handler via=followon client=skipsKeyAgreement lacks=enc reported_enc=true stream_encrypted=false", "Server.tla: initial policy table with Encryption=PREFERRED first commands, client level 'prefer', key-less continuation reported as plaintext; Bug FlagNotResetWithoutKey"),
 "C06-e": (False, "C06 quick: action=Resume variant=dead inv=DeadStaysDead origin=imported", "SessionCache.tla action Import (minted / imported sessions flagged inherited with a finite expiry) realised by MintClaimSession, ImportClaimSession, ImportFileTransferSession and a direct Store; Bug InheritedNeverExpires"),
 "C08-e": (False, "C08 quick: action=Receive reader=parseMax budget='after MyType' what=consumption", "ClassAdWire.tla: size-limited receiver with the byte budget as a parameter, invariant MaxSizeAllOrNothing (every budget: clean error or exactly the unlimited result); budget sweep over every byte value / field boundary; Bug ZeroBudgetReadsNothing"),
 "C11-e": (False, "C11 quick: dev=kid_path kid=up_sibling role=server|verify got=accept", "TokenAuth.tla: the key id as a path (sibling-prefix, unrelated, absolute, backslash must be refused; re-spellings of held keys either), real sibling directories next to the key directory, invariants ServerOkImpliesKeyHeld / PoolRuleSucceeds; Bugs KidPrefixContainment, KidNoSanitize"),
 "C16-e": (False, "C16 quick: action=ConnectCmd command=zero dir=importerDials field=resumed", "ClaimSession.tla: command lists with 0 / 1 / 2^31-1 / duplicates, command maps of both ends, action ConnectByCommand (dial naming only command + peer), invariant ResumesByCommand; Bug ZeroCommandUnmapped"),
 "C17-e": (False, "C17 quick: spec=SessionIdAlloc check=unique-session-id|no-foreign-replace path=GetNextSessionCounter (5 of 5 runs)", "SessionIdAlloc.tla (AllocId atomic; Bug AllocSplit) with UniqueIds / NoForeignReplace / ResumesOwnSession; allocator hammer in the race children (1.9 M concurrent counter calls, 72 k minted-and-stored sessions per quick run) and per-process id uniqueness + own-session resumption in the handshake storms"),
 "C18-e": (False, "C18 quick: check=created_for_invalid_path path=leaf_LaZone role=client", "FSAuth.tla leaf classes LaMap / LaAlt / LaZone / LaOdd (spellings of the live peer address: v4-mapped, expanded, zone suffix with junk classes, odd numeric forms); Bug ZoneSuffixAccepted"),
 "C20-e": (False, "C20 quick: invariant=ReturnedPresentedFreshId what=returned_badGreeting (standard) / returned_without_matching_hello (proxy, nested)", "CCBDial.tla arrival kind badGreeting (right id inside a malformed opening message: wrong command int, command missing, extra leading item, ad before command) in all three modes; every script with <= 2 environment steps always replayed; Bugs NoCommandCheck / ProxyNoCommandCheck"),
})

# round 4 (letter f, eight properties)
DET.update({
 "C04-f": (True,  "C04 quick: inv=EncOnImpliesSameTranscripts class=digest-coverage (frame headers of non-empty cleartext frames no longer hashed) on every shape", ""),
 "C05-f": (True,  "C05 quick: action=Handler lacks=authz via=fresh (first command of a fresh session not checked against the Authorizer)", ""),
 "C06-f": (True,  "C06 quick: inv=DeadStaysDead placement=fallback (an invalidated session survives in the server's own cache)", ""),
 "C11-f": (True,  "C11 quick: dev=iat_near/exp_near ... got=server=fail (the independent AKEP2 reference peer's proofs, which include the nonces, are refused)", ""),
 "C13-f": (True,  "C13 quick: ep=ParseSinful kind=spin class='qm amp' (empty query pair)", ""),
})
DET.update({
 "C03-f": (False, "C03 quick: invariant=RequiredEncOn policySource=hook policy=*/integREQUIRED deviation=OmitECDH|TruncateECDH|RandomECDH|NoCommonCipher role=server", "HandshakeEvil.tla: policy source of the server (base config / ServerConfigForCommand hook over a weak base), integrity-only REQUIRED cells in the quick tier for fresh server handshakes; Bug PerCommandIntegrityDropped"),
 "C08-f": (False, "C08 quick: spec=ItemSplit reader=parse spacing=leadingBlank|blanksBeforeEq what='attribute set' / spacing=tight eqInValue=true what=error", "ItemSplit.tla (the parsing receiver's Name = Value splitter over token texts: six spacing classes, '=' inside the value; invariant SplitAtFirstEq; Bugs CutAtSpacedEq, CutAtLastEq); 1 502 pre-rendered items sent through the raw senders and read by all receivers"),
})
DET.update({
 "C16-f": (False, "C16 quick: action=Import field=handed-out-claim addr=pctescape|pctverbs (the claim id handed out by MintClaimSession cannot be imported)", "ClaimSession.tla address shapes pctescape / pctverbs; the replayer imports the handed-out claim id even when its text already differs"),
})
# round 5 (letter f, 2026-09-23 late; partial: intake finished with ~10 minutes left, misses recorded as open)
DET.update({
 "C09-f": (True,  "C09 quick: action=Receive reader=parseMax st=keyedClear include=1 what=error (size-capped receiver skips the secret toggle on a keyed non-encrypting stream)", ""),
 "C18-f": (True,  "C18 quick: check=server_accepted object=symlinkToDir role=server (os.Stat instead of os.Lstat)", ""),
 "C20-f": (False, "C20 quick: invariant=BrokerFailureEndsAttempt mode=standard what=failure_did_not_end_attempt (failure reply without / with empty ErrorString)", "scripted broker's failure reply is a class of renderings (reason naming the broker / empty reason / no ErrorString), selected by the salt"),
 "C01-f": (False, "OPEN (missed by C01 quick): zero-length frame rejected on a keyed stream with crypto mode off", "needs Framing.tla stream state keyed-not-encrypting for empty messages / empty final frames"),
 "C07-f": (False, "OPEN (missed by C07 quick): InvalidateExpired sweeps only routes of sessions it expires itself; routes orphaned by LookupNonExpired survive and a re-import of the same id revives them", "needs SessionRoutes.tla action LazyExpire (id lookup drops the entry) followed by Import of the same id under another tag"),
 "C10-f": (False, "OPEN (missed by C10 quick): per-command config that already carries an ECDH public key keeps it, both ends derive different keys", "needs policy source hook with a previously used config (stale ECDHPublicKey) in Negotiation replay"),
 "C14-f": (False, "OPEN (missed by C14 quick): PutDouble floors the scaled fraction, negative non-integral doubles are one off", "needs negative doubles with non-integral scaled fraction in the Layout value classes"),
 "C15-f": (False, "OPEN (missed by C15 quick): frames of a multi-frame message assembled privately; a read deadline on a later frame leaves the stream looking clean and export is allowed", "needs fault action ReadTimeout mid-message before Export in StreamEndpoint"),
 "C19-f": (False, "OPEN (missed by C19 quick): cancellation ignored once SetTimeout(>0) was called", "needs configuration variant SetTimeout(>0) in the Cancel shapes"),
})
DET.update({
 "C02-f": (False, "OPEN (missed by C02 quick): sender frame-counter guard dead, counter wraps after 2^32 frames and first-lap frames replay", "needs counter fast-forward via imported crypto state near 2^32-1 before the replay adversary"),
 "C12-f": (False, "OPEN (missed by C12 quick; suite confirmation timed out under load): encrypt counter rolled back after a failed write", "needs a write-fault action in SecureChannel"),
})
