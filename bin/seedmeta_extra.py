DET.update({
 "C01-a": (True,  "C01 quick: invariant=DeliveredIsPrefixOfSent class=content (small write then large write reordered)", ""),
 "C01-b": (False, "pending: typed receiver must keep GetBytes slices until the whole message was read", "typed receiver keeps every returned slice and compares after the whole behaviour (follow-up)"),
 "C14-a": (True,  "C14 quick: invariant=Layout type=int (uint32 >= 2^31 sign-extended)", ""),
 "C14-b": (False, "pending: long messages re-cut into equal-size frames", "long value sequences re-framed at every frame size / cut (follow-up)"),
 "C04-a": (True,  "C04 quick: inv=EncOnImpliesSameTranscripts class=digest-coverage (first protected frame does not open under the relay's own digests)", ""),
 "C04-b": (True,  "C04 quick: act=InsertFrame inv=TamperedMeansNoAppData (empty frame inserted into the cleartext handshake goes unnoticed)", ""),
 "C10-a": (True,  "C10 quick: inv=FollowsTable class=auth-must-run / FailsExactlyWhen (unimplemented method ahead of a usable one)", ""),
 "C10-b": (True,  "C10 quick: inv=FailsExactlyWhen class=one-sided (server NEVER / client lenient: client keys, server does not)", ""),
})
