#!/usr/bin/env python3
"""Regenerates /verif/MANIFEST.json from the table below (single source of truth)."""
import json, os, subprocess
V = os.path.dirname(os.path.dirname(os.path.abspath(__file__)))
BASELINE = json.load(open('/root/.vp/BASELINE.json'))['cmd'] if os.path.exists('/root/.vp/BASELINE.json') else "cd /repo && go test -mod=mod -vet=off -count=1 ./..."

TB = "Trusted: TLC; Go runtime and crypto primitives (AES-GCM, SHA-256, HKDF); the harness's independent reference codec (harness/internal/refcodec) as a reading of protocol/CEDAR_PROTOCOL.md; symbolic cryptography in the model. "

CHECKS = {
 "C02": dict(engine="SecureChannel", level="model_checking", ref="§6 C02",
   text="TLC checks DeliveredPrefix / NoSpuriousError on SecureChannel.tla exhaustively for small constants with an on-path adversary (drop, dup, swap, replay, truncate, flip of every field, forged frames of every length class at every position); every generated behaviour is replayed against two real keyed streams under every receive API, abstract faults expanded to concrete bits / cut positions, and the delivered messages / error point must equal the model's.",
   note=TB+"Assumes an application stops reading a direction after its first receive error. Multi-fault combinations only by the exhaustive model (MaxFaults=1 in replay).",
   tech="TLA+ model checking (TLC) + replay of TLC-generated behaviours into the real streams"),
 "C12": dict(engine="SecureChannel", level="model_checking", ref="§6 C12",
   text="TLC checks NonceFresh, FrameFormat and RefuseAtWrap on SecureChannel.tla (both stream states, cleartext prefixes, counters started near the limit, hand-offs); every frame the real sender emits in the replayed behaviours is opened by an independent AES-GCM frame codec using the IV presence / counter / AAD kind predicted by the model state, and reference-sealed frames are fed to the real receiver.",
   note=TB+"Counters near 2^32 are reached through a reference-built crypto-state blob (NewStreamWithCryptoState); IV distinctness is checked across the streams of a run, not statistically.",
   tech="TLA+ model checking (TLC) + replay with an independent reference decryptor/sealer"),
 "C15": dict(engine="SecureChannel", level="model_checking", ref="§6 C15",
   text="TLC checks that hand-offs (export+import) at any point keep DeliveredPrefix, NoSpuriousError and NonceFresh; behaviours with a hand-off attempted by either endpoint at every position of three traffic scripts (chains of 2 in thorough) and with damaged blobs are replayed on real streams: the model predicts refusal vs success of every export and the continued exchange.",
   note=TB+"A hand-off while frames of an outbound message have left but nothing is buffered is allowed either outcome (the statement does not decide it).",
   tech="TLA+ model checking (TLC) + replay of TLC-generated behaviours into the real streams"),
}
PENDING = {}
for i in range(1, 21):
    pid = "C%02d" % i
    if pid not in CHECKS:
        PENDING[pid] = "machinery for this property is not built yet in this round (planned with the same TLA+ technique, see DESIGN.md §6); not claimed until its check exists"

extra = os.path.join(V, "bin", "manifest_extra.py")
if os.path.exists(extra):
    exec(open(extra).read())

hooks_commits = []
try:
    out = subprocess.run(["git", "-C", "/repo", "log", "--format=%h %s"], capture_output=True, text=True).stdout
    hooks_commits = [l.split()[0] for l in out.splitlines() if l.split(None, 1)[1].startswith("verif:")]
except Exception:
    pass

m = {
 "version": 1,
 "setup_cmd": "bin/setup",
 "hooks": {"guard": "verif", "enable": "go build -tags verif (bin/check builds the harness against /repo with the tag on)",
           "baseline_off_cmd": BASELINE, "source_commits": hooks_commits, "add_only": True},
 "engines": [
   {"name": "SecureChannel", "path": "spec/SecureChannel.tla", "serves_properties": ["C02", "C12", "C15"], "kind_free_text": "TLA+ spec of the AES-GCM stream pair with adversary, counters, export/import; Gen_SecureChannel.tla emits behaviours; harness/internal/chanreplay replays them"},
   {"name": "StreamEndpoint_Trace", "path": "spec/StreamEndpoint_Trace.tla", "serves_properties": ["C02", "C12", "C15"], "kind_free_text": "trace validation (code -> spec): events from the guarded hooks in /repo/stream (replay traffic and the repository's own stream/message tests) are validated by TLC against the per-endpoint projection StreamEndpoint.tla"},
 ] + globals().get("EXTRA_ENGINES", []),
 "checks": [],
 "not_applicable": [{"property_id": k, "reason": v} for k, v in sorted(PENDING.items())],
 "notes": "bin/check <id> <tier> rebuilds the harness from /repo's working tree (-tags verif), runs TLC on /verif/spec, replays the generated behaviours into the real code, validates recorded traces and writes evidence/<id>.json. Exit 2 = machinery problem (never a violation). KNOWN_FINDINGS.json lists genuine defects (known / fixed).",
}
for pid in sorted(CHECKS):
    c = CHECKS[pid]
    m["checks"].append({
      "property_id": pid,
      "quick_cmd": "bin/check %s quick" % pid,
      "thorough_cmd": "bin/check %s thorough" % pid,
      "evidence_file": "evidence/%s.json" % pid,
      "replay_cmd_template": "bin/check %s quick --replay {path}" % pid,
      "engine": c["engine"],
      "level_claimed": {"category": c["level"], "text": c["text"], "design_ref": c["ref"]},
      "level_note": c["note"],
      "technique": c["tech"],
    })
json.dump(m, open(os.path.join(V, "MANIFEST.json"), "w"), indent=1)
print("wrote MANIFEST.json with", len(m["checks"]), "checks;", len(m["not_applicable"]), "not claimed")
