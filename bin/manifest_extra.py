# Entries added as builders' checks are integrated (exec'd by mkmanifest.py).
EXTRA_ENGINES = []
def claim(pid, engine, level, ref, text, note, tech, engine_path=None, engine_desc=None):
    CHECKS[pid] = dict(engine=engine, level=level, ref=ref, text=text, note=note, tech=tech)
    PENDING.pop(pid, None)
    if engine_path and not any(e["name"] == engine for e in EXTRA_ENGINES):
        EXTRA_ENGINES.append({"name": engine, "path": engine_path, "serves_properties": [pid], "kind_free_text": engine_desc or ""})
    elif engine_path:
        for e in EXTRA_ENGINES:
            if e["name"] == engine and pid not in e["serves_properties"]:
                e["serves_properties"].append(pid)

claim("C11", "TokenAuth", "fault_enumeration", "§6 C11",
  "fault_enumeration on a model: TLC enumerates the complete single-deviation catalogue of TokenAuth.tla (95 exchange + 23 verification scenarios) and checks the four statement invariants (+ token currency, honest-run success); every scenario is executed against two real cedar endpoints (method TOKEN, cleartext handshake) through a message-aware relay / an independent AKEP2 reference peer, and against the real VerifyIDToken.",
  TB + "Abstract positions expand to all concrete character/bit/byte/length/offset positions in thorough, a seeded sample in quick; outcomes the statement leaves open are 'either'; time boundaries use >= 5 s margins (no sub-second boundary is asserted).",
  "TLA+ spec + TLC behaviour generation; replay through a message-aware relay between real cedar client and server; independent AKEP2/JWT reference peer and oracle",
  "spec/TokenAuth.tla", "TLA+ spec of the AKEP2 token exchange with symbolic MAC/KDF and a single-deviation catalogue; harness/internal/tokreplay replays it")
