# Entries added as builders' checks are integrated (exec'd by mkmanifest.py).
EXTRA_ENGINES = []
def claim(pid, engine, level, ref, text, note, tech, engine_path=None, engine_desc=None):
    CHECKS[pid] = dict(engine=engine, level=level, ref=ref, text=text, note=note, tech=tech)
    PENDING.pop(pid, None)
    if engine_path and not any(e["name"] == engine for e in EXTRA_ENGINES):
        EXTRA_ENGINES.append({"name": engine, "path": engine_path, "serves_properties": [pid], "kind_free_text": engine_desc or ""})
    elif engine_path:
        for e in EXTRA_ENGINES:
            if e["name"] == engine and pid not in e["serves_properties"]:
                e["serves_properties"].append(pid)

claim("C11", "TokenAuth", "fault_enumeration", "§6 C11",
  "fault_enumeration on a model: TLC enumerates the complete single-deviation catalogue of TokenAuth.tla (95 exchange + 23 verification scenarios) and checks the four statement invariants (+ token currency, honest-run success); every scenario is executed against two real cedar endpoints (method TOKEN, cleartext handshake) through a message-aware relay / an independent AKEP2 reference peer, and against the real VerifyIDToken.",
  TB + "Abstract positions expand to all concrete character/bit/byte/length/offset positions in thorough, a seeded sample in quick; outcomes the statement leaves open are 'either'; time boundaries use >= 5 s margins (no sub-second boundary is asserted).",
  "TLA+ spec + TLC behaviour generation; replay through a message-aware relay between real cedar client and server; independent AKEP2/JWT reference peer and oracle",
  "spec/TokenAuth.tla", "TLA+ spec of the AKEP2 token exchange with symbolic MAC/KDF and a single-deviation catalogue; harness/internal/tokreplay replays it")

claim("C08", "ClassAdWire+LiteralShortcut", "model_checking", "§6 C08",
  "TLC model-checks LiteralShortcut.tla (the decoder's literal fast path transcribed as a case analysis over a 15-token alphabet vs the grammar's class of a lone literal: ShortcutSound) and ClassAdWire.tla (wire layout, three receivers: SameConsumption, AttrSetPreserved) and enumerates every text <= 4 (quick) / 5 (thorough) tokens and every ad shape; each is replayed through the real PutClassAd*/stream/GetClassAd*/GetClassAdRaw/SkipClassAdRaw on plain and encrypted, single- and multi-frame streams; the value oracle is the classad library's full parser (named by the statement).",
  TB + "Value semantics are decided by parser.ParseExpr, not by TLA+ (the model's class prediction is cross-checked against it on every text); expression values beyond the alphabet come from a Go grammar pool (depth <= 2 exhaustive, deeper seeded); texts the full parser rejects are outside the statement.",
  "TLA+ model checking (TLC) + replay of TLC-enumerated texts/ad shapes into the real encoder/decoders; full-parser value oracle",
  "spec/ClassAdWire.tla", "TLA+ specs of the ClassAd wire layout / privacy table (ClassAdWire.tla) and of the literal fast path (LiteralShortcut.tla); harness/internal/adwire replays them")
claim("C09", "ClassAdWire+LiteralShortcut", "model_checking", "§6 C09",
  "The whole privacy decision table (46 656 rows: attribute class x spelling x option bits x whitelist x peer version x stream state) is enumerated by TLC from ClassAdWire.tla with the invariants DefaultDeny, NoPrivateOverridesInclude, V2VersionGate, SecretsOnlyInsideEncryptedFrames, ReceiverReassembles; every row is replayed with the real PutClassAdWithOptions on a recording stream in the three stream states; the reference AES-GCM opener classifies every frame, a canary search covers all emitted bytes, and the real receivers reassemble the ad.",
  TB + "The fixed private names and the 9.9.0 cut-off come from HTCondor; 'omitted' is always allowed for a private attribute (the statement only forbids leaking); whitelists are spelled exactly (the statement is silent on whitelist case).",
  "TLA+ model checking (TLC) of the decision table + replay of every row into the real serialiser with canary search",
  "spec/ClassAdWire.tla")

claim("C03", "HandshakeEvil", "model_checking", "§6 C03",
  "TLC exhaustively checks RequiredAuthRan / RequiredEncOn / ReportedEncTruthful / ReportedAuthTruthful / NoClearAfterKey on HandshakeEvil.tla (endpoint under test x scripted-peer deviation catalogue: answers NO, omits / truncates / randomises / substitutes the ECDH key, no common cipher, selects an unoffered bit / several / zero, reports DENIED, post-auth ad in clear, key-less resumption) and enumerates every scenario (16 policies x method lists x 2 roles x fresh/resumed x deviations); each is executed as a real handshake of security.Authenticator against an independent scripted peer (harness/internal/peer, built on the reference codec) and must land in a terminal state the spec allows; in addition the HandshakeDone events of the repository's own tests are validated by TLC against HandshakeOutcome / ConnLifecycle trace specs.",
  TB + "Only CLAIMTOBE completes as an exchange against the scripted peer (forged method internals are C11 / C18); resumed sessions are assumed established under the same policy; the reported method is compared with what ran only when Authentication=true.",
  "TLA+ model checking (TLC) + spec->code replay against an independent scripted peer (terminal-state membership) + code->spec trace validation of handshake outcomes",
  "spec/HandshakeEvil.tla", "TLA+ spec of one endpoint's handshake against a scripted-evil peer; harness/internal/peer + evilreplay replay it")

claim("C05", "Server", "model_checking", "§6 C05",
  "TLC exhaustively checks HandlerOnlyOnAdequateSession / RawAuthSeparated / RefusedClosesWithoutHandler on Server.tla (3 authenticated commands with different policies + 1 raw, <= 2 (quick) / 3 (thorough) commands per connection, 2 connections, honest / key-agreement-skipping / unauthenticated clients, policy and authorizer changes between connections); every TLC-enumerated client script is executed against a real server.Server over an in-memory connection (real client handshakes, follow-on commands, reconnect-and-resume, raw path), the handler log with Stream.IsEncrypted() observed inside the handler, and the recorded trace is accepted or rejected by TLC (Server_Trace.tla); the Dispatch events of the repository's own server tests are validated too (ServerDispatch_Trace / ConnLifecycle_Trace).",
  TB + "Authentication is CLAIMTOBE only, identities come through FQUMapper, reconfiguration happens only between connections, two connections maximum; the verdict is trace acceptance by a permissive spec (differences from the deterministic intended design are only counted).",
  "TLA+ model checking (TLC) + generated-script replay against server.ServeConn + TLC trace validation of the recorded handler log",
  "spec/Server.tla", "TLA+ spec of the command server's dispatch loop; harness/internal/srvreplay replays TLC-generated client scripts and validates the recorded traces")
claim("C16", "ClaimSession", "model_checking", "§6 C16",
  "TLC checks SameSession / ResumesBothWays / WrongSecretFails / PublicFormHidesSecret / PolicyRoundTrips on a token-level grammar model of claim ids (ClaimSession.tla) over all 3 240 configurations (address shape x encryption x integrity x cipher list x command list x lifetime x version form x direction) x {same, corrupted} secret (pairwise + grammar-edge cover in quick); every behaviour is replayed against the real MintClaimSession / ImportClaimSession / ImportFileTransferSession on two caches (claim text equals the model's rendering, key bytes equal an independent HKDF, expiry, policy attributes) plus two real handshakes naming the session in the configured direction, and PublicClaimID is searched for the secret.",
  TB + "WrongSecretFails is judged on the working session (no application message is delivered in either direction); concrete addresses are one representative per shape; 64-hex secrets only.",
  "TLA+ model checking (TLC) + conformance replay with rendered-text comparison and an independent HKDF reference",
  "spec/ClaimSession.tla", "TLA+ spec of claim-id minting / import / resumption; harness/internal/claimreplay replays it")
